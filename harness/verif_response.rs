// Overlay child module of `response.rs` (compiled only under cfg(kani)); see DESIGN.md.
#![allow(dead_code, unused_imports)]
use super::*;
use crate::verif_params::{K as PROFILE, N};

/// When set, `Content-Length`'s decimal rendering uses the model below instead of
/// `i32::to_string` (core::fmt's function-pointer dispatch is very expensive for CBMC).  The C05
/// harnesses leave it off: there the real rendering is compared with the layout oracle.
pub(crate) static mut MODEL_DEC: bool = false;

pub(crate) fn i32_to_string_hook(v: i32) -> String {
    if !unsafe { MODEL_DEC } {
        return v.to_string();
    }
    let mut digits = [0u8; 11];
    let mut k = 0;
    let neg = v < 0;
    let mut x: i64 = (v as i64).abs();
    loop {
        digits[k] = b'0' + (x % 10) as u8;
        k += 1;
        x /= 10;
        if x == 0 {
            break;
        }
    }
    let mut s = String::new();
    if neg {
        s.push('-');
    }
    while k > 0 {
        k -= 1;
        s.push(digits[k] as char);
    }
    s
}

pub(crate) const ALL_STATUS: [StatusCode; 11] = [
    StatusCode::Continue,
    StatusCode::OK,
    StatusCode::NoContent,
    StatusCode::BadRequest,
    StatusCode::Unauthorized,
    StatusCode::NotFound,
    StatusCode::MethodNotAllowed,
    StatusCode::PayloadTooLarge,
    StatusCode::InternalServerError,
    StatusCode::NotImplemented,
    StatusCode::ServiceUnavailable,
];
pub(crate) const ALL_CODES: [u16; 11] = [100, 200, 204, 400, 401, 404, 405, 413, 500, 501, 503];

pub(crate) fn any_status() -> (StatusCode, u16) {
    let i: usize = kani::any();
    kani::assume(i < 11);
    (ALL_STATUS[i], ALL_CODES[i])
}

pub(crate) fn any_version() -> Version {
    if kani::any() {
        Version::Http10
    } else {
        Version::Http11
    }
}

pub(crate) fn any_method() -> Method {
    match kani::any::<u8>() % 3 {
        0 => Method::Get,
        1 => Method::Put,
        _ => Method::Patch,
    }
}

// @harness props=C16,C05 unwind=13 cap=600 mem=1
// @fn StatusCode::raw
// @claim every status code serializes to its documented three-digit number; the 11 numbers are pairwise distinct
// @bounds all 11 variants (exhaustive)
#[kani::proof]
fn c16_status_codes() {
    let mut i = 0;
    while i < 11 {
        let raw = ALL_STATUS[i].raw();
        let c = ALL_CODES[i];
        assert!(raw[0] == b'0' + (c / 100) as u8, "[C16,C05] status code digits");
        assert!(raw[1] == b'0' + ((c / 10) % 10) as u8, "[C16,C05] status code digits");
        assert!(raw[2] == b'0' + (c % 10) as u8, "[C16,C05] status code digits");
        let mut j = 0;
        while j < i {
            let r2 = ALL_STATUS[j].raw();
            assert!(raw[0] != r2[0] || raw[1] != r2[1] || raw[2] != r2[2], "[C16] status codes not distinct");
            j += 1;
        }
        i += 1;
    }
}

// ---------------------------------------------------------------------------------------------
// C05: layout model.  `Out` is a plain byte sink written by the reference below, independent of
// the crate's writers.
// ---------------------------------------------------------------------------------------------
pub(crate) const OUTCAP: usize = 320;
pub(crate) struct Out {
    pub b: [u8; OUTCAP],
    pub n: usize,
}
impl Out {
    pub fn new() -> Self {
        Out { b: [0; OUTCAP], n: 0 }
    }
    pub fn put(&mut self, s: &[u8]) {
        let mut i = 0;
        while i < s.len() {
            self.b[self.n] = s[i];
            self.n += 1;
            i += 1;
        }
    }
    pub fn put_dec(&mut self, v: usize) {
        // decimal without leading zeros
        let mut digits = [0u8; 10];
        let mut k = 0;
        let mut x = v;
        loop {
            digits[k] = b'0' + (x % 10) as u8;
            k += 1;
            x /= 10;
            if x == 0 {
                break;
            }
        }
        while k > 0 {
            k -= 1;
            self.b[self.n] = digits[k];
            self.n += 1;
        }
    }
}

pub(crate) struct Built {
    pub resp: Response,
    pub version: Version,
    pub code: u16,
    pub allow: [Method; 3],
    pub n_allow: usize,
    pub deprecation: bool,
    pub encoding: bool,
    pub json: bool,
    pub server_sel: u8,
    /// expected Content-Length presence/value
    pub len: Option<usize>,
    pub body: [u8; 128],
    pub body_len: usize,
}

pub(crate) const SERVERS: [&str; 3] = ["Firecracker API", "", "x/1"];

/// Builds a response through the public builder API with symbolic choices; `body_mode` 0 = no
/// body set, k+1 = body of k symbolic bytes (concrete k: the length is formatted in decimal).
pub(crate) fn build(body_mode: usize) -> Built {
    // PROFILE 3: status and version fixed as well (200, HTTP/1.1): only body bytes are symbolic
    let (status, code) = if PROFILE == 3 { (StatusCode::OK, 200) } else { any_status() };
    let version = if PROFILE == 3 { Version::Http11 } else { any_version() };
    let mut resp = Response::new(version, status);
    let mut len = if code == 100 || code == 204 { None } else { Some(0usize) };
    // optional explicit removal of the length before the body is set
    if PROFILE < 2 && kani::any() {
        resp.set_content_length(None);
        len = None;
    }
    let mut body = [0u8; 128];
    let mut body_len = 0;
    if body_mode > 0 {
        body_len = body_mode - 1;
        let mut v = Vec::with_capacity(body_len);
        let mut i = 0;
        while i < body_len {
            let x: u8 = kani::any();
            body[i] = x;
            v.push(x);
            i += 1;
        }
        resp.set_body(Body::new(v));
        len = Some(body_len);
        // the body may be replaced afterwards by an empty one: Content-Length must follow
        if PROFILE == 1 && kani::any() {
            resp.set_body(Body::new(Vec::new()));
            len = Some(0);
            body_len = 0;
        }
    }
    let deprecation: bool = if PROFILE >= 2 { false } else { kani::any() };
    if deprecation {
        resp.set_deprecation();
    }
    let encoding: bool = if PROFILE >= 2 { false } else { kani::any() };
    if encoding {
        resp.set_encoding();
    }
    // PROFILE 1 (quick tier) fixes the choices that only shift later bytes around: content type,
    // server string and the number of Allow entries (2, symbolic methods)
    let json: bool = if PROFILE >= 1 { true } else { kani::any() };
    // default content type is application/json (MediaType::default)
    let set_ct: bool = if PROFILE >= 1 { false } else { kani::any() };
    if set_ct {
        resp.set_content_type(if json { MediaType::ApplicationJson } else { MediaType::PlainText });
    }
    let json = if set_ct { json } else { true };
    let server_sel: u8 = if PROFILE >= 1 { 0 } else { kani::any() };
    kani::assume(server_sel < 3);
    if server_sel != 0 {
        resp.set_server(SERVERS[server_sel as usize]);
    } else if kani::any() {
        resp.set_server(SERVERS[0]);
    }
    let allow = [any_method(), any_method(), any_method()];
    let n_allow: usize = if PROFILE >= 2 { 0 } else if PROFILE == 1 { 2 } else { kani::any() };
    kani::assume(n_allow <= 3);
    if kani::any() {
        let mut v = Vec::new();
        let mut i = 0;
        while i < n_allow {
            v.push(allow[i]);
            i += 1;
        }
        resp.set_allow(v);
    } else {
        let mut i = 0;
        while i < n_allow {
            resp.allow_method(allow[i]);
            i += 1;
        }
    }
    Built { resp, version, code, allow, n_allow, deprecation, encoding, json, server_sel, len, body, body_len }
}

/// The documented wire layout, written independently of response.rs.
pub(crate) fn model(b: &Built) -> Out {
    let mut o = Out::new();
    o.put(match b.version {
        Version::Http10 => b"HTTP/1.0",
        Version::Http11 => b"HTTP/1.1",
    });
    o.put(b" ");
    o.put_dec(b.code as usize);
    o.put(b" \r\n");
    o.put(b"Server: ");
    o.put(SERVERS[b.server_sel as usize].as_bytes());
    o.put(b"\r\n");
    o.put(b"Connection: keep-alive\r\n");
    if b.n_allow > 0 {
        o.put(b"Allow: ");
        let mut i = 0;
        while i < b.n_allow {
            if i > 0 {
                o.put(b", ");
            }
            o.put(match b.allow[i] {
                Method::Get => b"GET",
                Method::Put => b"PUT",
                Method::Patch => b"PATCH",
            });
            i += 1;
        }
        o.put(b"\r\n");
    }
    if b.deprecation {
        o.put(b"Deprecation: true\r\n");
    }
    if let Some(l) = b.len {
        o.put(b"Content-Type: ");
        o.put(if b.json { b"application/json" } else { b"text/plain" });
        o.put(b"\r\n");
        o.put(b"Content-Length: ");
        o.put_dec(l);
        o.put(b"\r\n");
        if b.encoding {
            o.put(b"Accept-Encoding: identity\r\n");
        }
    }
    o.put(b"\r\n");
    o.put(&b.body[..b.body_len]);
    o
}

// @harness props=C05 props_thorough=C03 tiers=quick:N=3,K=2|N=0,K=2;thorough:N=3,K=2|N=0,K=2|N=0,K=1|N=3,K=1|N=12,K=1|N=0,K=0,MEM=16|N=2,K=0,MEM=16 unwind=max(28,N+2) cap=3000 mem=13
// @fn Response::new Response::set_body Response::set_content_length Response::set_content_type Response::set_deprecation Response::set_encoding Response::set_server Response::set_allow Response::allow_method Response::write_all StatusLine::write_all ResponseHeaders::write_all ResponseHeaders::write_allow_header ResponseHeaders::write_deprecation_header Response::write_body StatusCode::raw Version::raw Method::raw MediaType::as_str
// @claim write_all into a Vec equals the documented layout byte for byte (length and an arbitrary index), for symbolic status, version, flags, allow list (0..3 symbolic methods via either setter), server string, optional set_content_length(None) before the body; Content-Length present <=> status not in {100,204} or a body was set, and equals the body length
// @bounds body: unset (N=0) or N-1 symbolic bytes (K=1: optionally replaced afterwards by an empty body); status x version symbolic over all 22 combinations; builder calls in one fixed order; K=1 fixes content type (json), server string (default) and the number of Allow entries (2, methods symbolic); K=2 additionally no Allow, Deprecation or Accept-Encoding lines (status and version stay symbolic); K=3 additionally status 200 and HTTP/1.1
#[kani::proof]
fn c05_layout() {
    let b = build(N);
    let mut out = ArrSink { b: [0; OUTCAP], n: 0 };
    let r = b.resp.write_all(&mut out);
    assert!(r.is_ok(), "[C05] write_all failed");
    let m = model(&b);
    assert!(out.n == m.n, "[C05] serialized length differs from the documented layout");
    let j: usize = kani::any();
    kani::assume(j < m.n);
    assert!(out.b[j] == m.b[j], "[C05] serialized byte differs from the documented layout");
    kani::cover!(N > 0 || b.len.is_none());
    kani::cover!(PROFILE == 2 || (b.n_allow >= 2 && b.deprecation && b.encoding && b.len.is_some()));
    kani::cover!(b.code == 503 && (PROFILE >= 1 || b.server_sel == 1));
    kani::cover!(PROFILE == 2 || (b.n_allow >= 2 && b.allow[0] as u8 == b.allow[1] as u8));
    std::mem::forget(r);
    std::mem::forget(out);
    std::mem::forget(b);
}

/// A sink that accepts a symbolic number of bytes (>= 1) on the first `write` of every
/// `write_all` burst and everything on the following one.
pub(crate) struct ShortSink {
    pub b: [u8; OUTCAP],
    pub n: usize,
    /// the write call (counted from 0) that is cut short at a symbolic point; all others accept
    /// everything
    pub split_call: usize,
    pub calls: usize,
    pub was_split: bool,
}
impl ShortSink {
    pub fn new(split_call: usize) -> Self {
        ShortSink { b: [0; OUTCAP], n: 0, split_call, calls: 0, was_split: false }
    }
}
impl Write for ShortSink {
    fn write(&mut self, buf: &[u8]) -> std::io::Result<usize> {
        let mut k = buf.len();
        if self.calls == self.split_call && buf.len() > 1 {
            let kk: usize = kani::any();
            kani::assume(kk >= 1 && kk < buf.len());
            k = kk;
            self.was_split = true;
        }
        self.calls += 1;
        let mut i = 0;
        while i < k {
            self.b[self.n] = buf[i];
            self.n += 1;
            i += 1;
        }
        Ok(k)
    }
    fn flush(&mut self) -> std::io::Result<()> {
        Ok(())
    }
    fn write_all(&mut self, buf: &[u8]) -> std::io::Result<()> {
        // std's default loop, unrolled: this sink completes every burst with the second write
        // (a loop over a slice of symbolic length is unwound to the bound on every call).
        if buf.is_empty() {
            return Ok(());
        }
        let n1 = self.write(buf)?;
        if n1 < buf.len() {
            let n2 = self.write(&buf[n1..])?;
            assert!(n1 + n2 == buf.len());
        }
        Ok(())
    }
}

/// Counts write bursts.
pub(crate) struct CountSink {
    pub calls: usize,
}
impl Write for CountSink {
    fn write(&mut self, buf: &[u8]) -> std::io::Result<usize> {
        self.calls += 1;
        Ok(buf.len())
    }
    fn flush(&mut self) -> std::io::Result<()> {
        Ok(())
    }
    fn write_all(&mut self, buf: &[u8]) -> std::io::Result<()> {
        if !buf.is_empty() {
            self.calls += 1;
        }
        Ok(())
    }
}

/// A sink that accepts everything (what a `Vec` does), without any loop.
pub(crate) struct ArrSink {
    pub b: [u8; OUTCAP],
    pub n: usize,
}
impl Write for ArrSink {
    fn write(&mut self, buf: &[u8]) -> std::io::Result<usize> {
        // byte loop, not copy_from_slice: a memcpy to a symbolic offset exhausts CBMC's memory
        let mut i = 0;
        while i < buf.len() {
            self.b[self.n] = buf[i];
            self.n += 1;
            i += 1;
        }
        Ok(buf.len())
    }
    fn flush(&mut self) -> std::io::Result<()> {
        Ok(())
    }
    fn write_all(&mut self, buf: &[u8]) -> std::io::Result<()> {
        self.write(buf).map(|_| ())
    }
}

// @harness props=C05 tiers=quick:N=4,K=3,M=0|N=4,K=3,M=2;thorough:N=4,K=3,M=0|N=4,K=3,M=2|N=4,K=3,M=9|N=12,K=3,M=0|N=4,K=2,M=0 unwind=max(28,N+2) cap=2400 mem=8 covers=1
// @fn Response::write_all StatusLine::write_all ResponseHeaders::write_all Response::write_body
// @claim a sink that accepts only part of a write receives exactly the bytes a Vec receives
// @bounds body of N-1 symbolic bytes; one write call (M=0: the body, the last call; otherwise call number M) accepts only a symbolic non-empty proper prefix; std's default write_all loop (real code) completes it
#[kani::proof]
fn c05_short_sink() {
    let b = build(N);
    // which write call is cut short: M = 0 -> the last one (the body); otherwise call number M
    // (concrete: a symbolic call number makes every later array write a symbolic-offset write)
    let mut counter = CountSink { calls: 0 };
    let _ = b.resp.write_all(&mut counter);
    let split_call: usize = if crate::verif_params::M == 0 { counter.calls - 1 } else { crate::verif_params::M };
    let mut sink = ShortSink::new(split_call);
    let r = b.resp.write_all(&mut sink);
    assert!(r.is_ok(), "[C05] write_all into a short-writing sink failed");
    let m = model(&b);
    assert!(sink.n == m.n, "[C05] short-writing sink received a different number of bytes");
    let j: usize = kani::any();
    kani::assume(j < m.n);
    assert!(sink.b[j] == m.b[j], "[C05] short-writing sink received different bytes");
    kani::cover!(sink.was_split && sink.calls > 12, "a write was cut short");
    std::mem::forget(r);
    std::mem::forget(b);
}
