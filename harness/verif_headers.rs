// Overlay child module of `common/headers.rs` (compiled only under cfg(kani)); see DESIGN.md.
#![allow(dead_code, unused_imports, static_mut_refs)]
use super::*;

/// When true, `connection.rs` calls the surrogate instead of `Headers::parse_header_line`.
pub(crate) static mut SUR_HL: bool = false;

/// Surrogate header-line parser: outcome is a function of the line bytes alone and covers every
/// class `parse_headers` distinguishes: Ok (no effect / sets content_length / sets expect),
/// Err(UnsupportedValue) (must be ignored), other Err (must propagate).
pub(crate) fn sur_header_line(h: &mut Headers, line: &[u8]) -> Result<(), RequestError> {
    crate::request::verif_kani::log_push(2, line);
    // `parse_headers` never passes an empty line (Some(0) is the end of headers).
    let b = if line.is_empty() { 0 } else { line[0] };
    match b & 7 {
        0 => Ok(()),
        1 => {
            // "Content-Length: <second byte>"
            h.content_length = if line.len() > 1 { line[1] as u32 } else { 0 };
            Ok(())
        }
        2 => {
            h.expect = true;
            Ok(())
        }
        3 => Err(RequestError::HeaderError(HttpHeaderError::UnsupportedValue(
            String::new(),
            String::new(),
        ))),
        4 => Err(RequestError::HeaderError(HttpHeaderError::InvalidFormat(
            String::new(),
        ))),
        5 => {
            // a large content length (exercises the payload limit with big numbers)
            h.content_length = 0xffff_ff00u32 | (if line.len() > 1 { line[1] as u32 } else { 0 });
            Ok(())
        }
        _ => Ok(()),
    }
}

pub(crate) fn header_line_hook(h: &mut Headers, line: &[u8]) -> Result<(), RequestError> {
    // SAFETY: harnesses are single-threaded.
    if unsafe { SUR_HL } {
        sur_header_line(h, line)
    } else {
        h.parse_header_line(line)
    }
}

pub(crate) fn set_fields(h: &mut Headers, content_length: u32, expect: bool, chunked: bool) {
    h.content_length = content_length;
    h.expect = expect;
    h.chunked = chunked;
}

/// Stub for `String::from_utf8_lossy` (only ever used to build an error *message*).
pub(crate) fn lossy_stub(_v: &[u8]) -> std::borrow::Cow<'_, str> {
    std::borrow::Cow::Borrowed("")
}
