#!/bin/bash
# confirm_mutant.sh <worktree> <dir with patch.diff demo.diff>  -> prints a one-line verdict
# (a) HEAD+patch: full suite passes; (b) HEAD+patch+demo: demo fails; (c) HEAD+demo: demo passes
wt=$1; d=$2
cd $wt || exit 2
git checkout -q -- . ; git clean -fdq -e _out -e target
export CARGO_NET_OFFLINE=true
git apply $d/patch.diff || { echo "$d: PATCH-DOES-NOT-APPLY"; exit 1; }
a=$(cargo test --offline 2>&1 | grep -E "^test result" | awk '{f+=$6; p+=$4} END{print p" passed "f" failed"}')
git apply $d/demo.diff || { echo "$d: DEMO-DOES-NOT-APPLY"; git checkout -q -- .; exit 1; }
tests=$(grep -E "^\+\+\+ b/tests/" $d/demo.diff | sed 's#+++ b/tests/##; s#\.rs##')
b=""; for t in $tests; do b="$b $(cargo test --offline --test $t 2>&1 | grep -E "^test result" | head -1 | awk '{print $3 $4"p"$6"f"}')"; done
git apply -R $d/patch.diff
c=""; for t in $tests; do c="$c $(cargo test --offline --test $t 2>&1 | grep -E "^test result" | head -1 | awk '{print $3 $4"p"$6"f"}')"; done
git checkout -q -- . ; git clean -fdq -e _out -e target
echo "$d: suite_with_patch=[$a] demo_with_patch=[$b] demo_without=[$c] tests=[$tests]"
