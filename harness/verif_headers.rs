// Overlay child module of `common/headers.rs` (compiled only under cfg(kani)); see DESIGN.md.
#![allow(dead_code, unused_imports, static_mut_refs)]
use super::*;

/// When true, `connection.rs` calls the surrogate instead of `Headers::parse_header_line`.
pub(crate) static mut SUR_HL: bool = false;

/// A heap-allocated string.  (An error value built only from `String::new()` is promoted to a
/// constant by rustc, and Kani 0.68 then mis-models the niche-encoded capacity when the real code
/// drops it: spurious `__rust_dealloc` failures that do not reproduce natively.)
pub(crate) fn nonconst_string() -> String {
    String::from("s")
}

/// Surrogate header-line parser: outcome is a function of the line bytes alone and covers every
/// class `parse_headers` distinguishes: Ok (no effect / sets content_length / sets expect),
/// Err(UnsupportedValue) (must be ignored), other Err (must propagate).
pub(crate) fn sur_header_line(h: &mut Headers, line: &[u8]) -> Result<(), RequestError> {
    crate::request::verif_kani::log_push(2, line);
    // `parse_headers` never passes an empty line (Some(0) is the end of headers).
    let b = if line.is_empty() { 0 } else { line[0] };
    match b & 7 {
        0 => Ok(()),
        1 => {
            // "Content-Length: <second byte>"
            h.content_length = if line.len() > 1 { line[1] as u32 } else { 0 };
            Ok(())
        }
        2 => {
            h.expect = true;
            Ok(())
        }
        3 => Err(RequestError::HeaderError(HttpHeaderError::UnsupportedValue(
            nonconst_string(),
            nonconst_string(),
        ))),
        4 => Err(RequestError::HeaderError(HttpHeaderError::InvalidFormat(
            nonconst_string(),
        ))),
        5 => {
            // a large content length (exercises the payload limit with big numbers)
            h.content_length = 0xffff_ff00u32 | (if line.len() > 1 { line[1] as u32 } else { 0 });
            Ok(())
        }
        _ => Ok(()),
    }
}

pub(crate) fn header_line_hook(h: &mut Headers, line: &[u8]) -> Result<(), RequestError> {
    // SAFETY: harnesses are single-threaded.
    if unsafe { SUR_HL } {
        sur_header_line(h, line)
    } else {
        h.parse_header_line(line)
    }
}

pub(crate) fn set_fields(h: &mut Headers, content_length: u32, expect: bool, chunked: bool) {
    h.content_length = content_length;
    h.expect = expect;
    h.chunked = chunked;
}

pub(crate) fn set_cl(h: &mut Headers, content_length: u32) {
    h.content_length = content_length;
}

/// Stub for `String::from_utf8_lossy` (only ever used to build an error *message*).
pub(crate) fn lossy_stub(_v: &[u8]) -> std::borrow::Cow<'_, str> {
    std::borrow::Cow::Borrowed("")
}

// ---------------------------------------------------------------------------------------------
// header-block surrogate for the one-shot parser (C14)
// ---------------------------------------------------------------------------------------------
pub(crate) static mut SUR_HB: bool = false;

pub(crate) fn headers_try_from_hook(block: &[u8]) -> Result<Headers, RequestError> {
    if unsafe { SUR_HB } {
        crate::request::verif_kani::log_push(3, block);
        let first = if block.is_empty() { 0 } else { block[0] };
        if first & 0x80 != 0 {
            return Err(RequestError::HeaderError(HttpHeaderError::InvalidFormat(nonconst_string())));
        }
        let mut h = Headers::default();
        h.content_length = (first & 0x0f) as u32;
        Ok(h)
    } else {
        Headers::try_from(block)
    }
}

// ---------------------------------------------------------------------------------------------
// C15: header rules, real code
// ---------------------------------------------------------------------------------------------
use crate::verif_params::{K as PK, M as PM, N as PN};

fn at(s: &[u8], i: usize) -> u8 {
    if i < s.len() {
        s[i]
    } else {
        0
    }
}

fn is_ws(b: u8) -> bool {
    // Unicode White_Space restricted to ASCII: TAB, LF, VT, FF, CR, SP
    (b >= 9 && b <= 13) || b == b' '
}

/// [start, end) of `s` without leading/trailing ASCII whitespace.
fn trim_ws(s: &[u8]) -> (usize, usize) {
    let mut a = 0;
    while a < s.len() && is_ws(s[a]) {
        a += 1;
    }
    let mut e = s.len();
    while e > a && is_ws(s[e - 1]) {
        e -= 1;
    }
    (a, e)
}

fn eqb(a: &[u8], b: &[u8]) -> bool {
    crate::common::verif_kani::bytes_eq(a, b)
}

fn all_ascii(s: &[u8]) -> bool {
    let mut i = 0;
    while i < s.len() {
        if s[i] >= 0x80 {
            return false;
        }
        i += 1;
    }
    true
}

const NAMES: [&[u8]; 7] = [
    b"content-length",
    b"content-type",
    b"expect",
    b"transfer-encoding",
    b"server",
    b"accept",
    b"accept-encoding",
];

fn header_code(h: &Header) -> usize {
    match h {
        Header::ContentLength => 0,
        Header::ContentType => 1,
        Header::Expect => 2,
        Header::TransferEncoding => 3,
        Header::Server => 4,
        Header::Accept => 5,
        Header::AcceptEncoding => 6,
    }
}

// @harness props=C15 props_thorough=C03,C13 tiers=quick:M=0|M=2|M=6;thorough:M=0|M=1|M=2|M=3|M=4|M=5|M=6 unwind=22 cap=1500 mem=4 covers=2
// @fn Header::try_from
// @claim each recognised header name is matched in every letter-case pattern and with whitespace around it, and with nothing else around it: name M with a symbolic case flip on every letter, its hyphens replaced by one arbitrary byte, one arbitrary byte before and one after => recognised (as that header) iff both surrounding bytes are whitespace and the hyphen byte is '-'
// @bounds the 7 names (one query each); every one of the 2^len case patterns; 1 arbitrary byte on each side
// @stubs std::str::from_utf8(model:RFC3629-validator)
#[kani::proof]
#[kani::stub(std::str::from_utf8, crate::request::verif_kani::from_utf8_stub)]
#[kani::stub(core::slice::memchr::memchr, crate::request::verif_kani::memchr_stub)]
fn c15_name_case() {
    let name = NAMES[PM % 7];
    let n = name.len();
    let mut buf = [0u8; 20];
    let l: u8 = kani::any();
    let r: u8 = kani::any();
    // every hyphen of the name is replaced by one arbitrary byte: only '-' itself may match
    let hy: u8 = kani::any();
    buf[0] = l;
    let mut i = 0;
    while i < n {
        let c = name[i];
        let up: bool = kani::any();
        buf[1 + i] = if c == b'-' {
            hy
        } else if up && c >= b'a' && c <= b'z' {
            c - 32
        } else {
            c
        };
        i += 1;
    }
    buf[1 + n] = r;
    let res = Header::try_from(&buf[..n + 2]);
    let mut has_hyphen = false;
    i = 0;
    while i < n {
        if name[i] == b'-' {
            has_hyphen = true;
        }
        i += 1;
    }
    let want = is_ws(l) && is_ws(r) && (!has_hyphen || hy == b'-');
    match &res {
        Ok(h) => {
            assert!(want, "[C15] header name recognised although it is surrounded by non-whitespace");
            assert!(header_code(h) == PM % 7, "[C15] header name recognised as a different header");
            kani::cover!(true, "recognised");
        }
        Err(_) => {
            assert!(!want, "[C15] header name not recognised in some letter-case / whitespace pattern");
            kani::cover!(l < 0x80 && r < 0x80, "not recognised");
        }
    }
    std::mem::forget(res);
}

/// expected result of parsing `v` as the Content-Length value: Some(n) or None (InvalidValue)
fn ref_u32(v: &[u8]) -> Option<u32> {
    let (a, e) = trim_ws(v);
    let mut i = a;
    if i < e && v[i] == b'+' {
        i += 1;
    }
    if i >= e {
        return None;
    }
    let mut acc: u64 = 0;
    while i < e {
        let c = v[i];
        if c < b'0' || c > b'9' {
            return None;
        }
        acc = acc * 10 + (c - b'0') as u64;
        if acc > u32::MAX as u64 {
            return None;
        }
        i += 1;
    }
    Some(acc as u32)
}

const CL_PREFIX: [&[u8]; 4] = [b"", b"429496729", b" +00", b"42949672"];

fn no_colon(s: &[u8]) -> bool {
    let mut i = 0;
    while i < s.len() {
        if s[i] == b':' {
            return false;
        }
        i += 1;
    }
    true
}

// @harness props=C15,C02,C03,C04 tiers=experimental:K=0,N=2|K=1,N=1|K=1,N=2 unwind=34 cap=1500 mem=4 covers=3
// @fn Headers::parse_header_line Header::try_from
// @stubs std::str::from_utf8(model:RFC3629-validator) core::slice::memchr::memchr(model:first-index-loop)
// @claim `Content-Length:<value>`: accepted iff the value, after trimming whitespace, is an optional '+' followed by decimal digits denoting a number <= 2^32-1, and then the stored length is that number; otherwise InvalidValue and the stored length is unchanged
// @bounds value = concrete prefix K (``, `429496729`, ` +00`, `42949672`) followed by N arbitrary ASCII bytes other than ':' (K=1 reaches 4294967295 / 4294967296 and 11-digit numbers); previous stored length arbitrary
#[kani::proof]
#[kani::stub(std::str::from_utf8, crate::request::verif_kani::from_utf8_stub)]
#[kani::stub(core::slice::memchr::memchr, crate::request::verif_kani::memchr_stub)]
fn c15_content_length_value() {
    const PL: usize = CL_PREFIX[PK % 4].len();
    let mut line = [0u8; 15 + PL + PN];
    let name = b"Content-Length:";
    let mut i = 0;
    while i < 15 {
        line[i] = name[i];
        i += 1;
    }
    i = 0;
    while i < PL {
        line[15 + i] = CL_PREFIX[PK % 4][i];
        i += 1;
    }
    let v: [u8; PN] = kani::any();
    kani::assume(all_ascii(&v) && no_colon(&v));
    i = 0;
    while i < PN {
        line[15 + PL + i] = v[i];
        i += 1;
    }
    let mut h = Headers::default();
    let prev: u32 = kani::any();
    h.content_length = prev;
    let r = h.parse_header_line(&line);
    match ref_u32(&line[15..]) {
        Some(n) => {
            assert!(r.is_ok(), "[C15,C02] well-formed Content-Length rejected");
            assert!(h.content_length == n, "[C15,C02,C04] stored Content-Length differs from the decimal value");
            kani::cover!(PK % 4 != 1 || n == u32::MAX, "largest accepted value");
        }
        None => {
            assert!(matches!(r, Err(RequestError::HeaderError(HttpHeaderError::InvalidValue(_, _)))), "[C15,C02] malformed or out-of-range Content-Length not rejected with InvalidValue");
            assert!(h.content_length == prev, "[C15] rejected Content-Length changed the stored value");
            kani::cover!(PK % 4 != 1 || at(&v[..], 0) == b'6', "just above the range");
        }
    }
    assert!(!h.expect && !h.chunked && h.custom_entries.len() == 0);
    kani::cover!(r.is_ok());
    std::mem::forget(r);
    std::mem::forget(h);
}

const VNAMES: [&[u8]; 4] = [b"Expect:", b"Transfer-Encoding:", b"Content-Type:", b"Accept:"];

const TOKENS: [&[u8]; 7] = [
    b"100-continue",
    b"chunked",
    b"identity",
    b"text/plain",
    b"application/json",
    b"100-continuE",
    b"text/plain2",
];

// @harness props=C15,C13,C16,C03 tiers=experimental:M=0,K=0|M=1,K=1|M=3,K=3|M=3,K=4 unwind=36 cap=1500 mem=4 covers=2
// @fn Headers::parse_header_line Header::try_from MediaType::try_from
// @stubs std::str::from_utf8(model:RFC3629-validator) core::slice::memchr::memchr(model:first-index-loop)
// @claim Expect / Transfer-Encoding / Content-Type / Accept: a supported value (100-continue; chunked, identity; text/plain, application/json - modulo surrounding whitespace only) has its documented effect and nothing else changes; every other value is reported as UnsupportedValue and changes nothing
// @bounds header M in {Expect, Transfer-Encoding, Content-Type, Accept}; value = one arbitrary byte, the concrete token K with its first byte replaced by an arbitrary byte, one arbitrary byte (all three ASCII, not ':'); tokens: the five supported ones plus two near misses
#[kani::proof]
#[kani::stub(std::str::from_utf8, crate::request::verif_kani::from_utf8_stub)]
#[kani::stub(core::slice::memchr::memchr, crate::request::verif_kani::memchr_stub)]
fn c15_flag_values() {
    const NL: usize = VNAMES[PM % 4].len();
    const TL: usize = TOKENS[PK % 7].len();
    let name = VNAMES[PM % 4];
    let tok = TOKENS[PK % 7];
    let mut line = [0u8; NL + TL + 2];
    let mut i = 0;
    while i < NL {
        line[i] = name[i];
        i += 1;
    }
    let sym: [u8; 3] = kani::any();
    kani::assume(all_ascii(&sym) && no_colon(&sym));
    line[NL] = sym[0];
    i = 0;
    while i < TL {
        line[NL + 1 + i] = tok[i];
        i += 1;
    }
    line[NL + 1] = sym[1];
    line[NL + 1 + TL] = sym[2];
    let v = &line[NL..];
    let mut h = Headers::default();
    let e0: bool = kani::any();
    let c0: bool = kani::any();
    h.expect = e0;
    h.chunked = c0;
    let a0 = h.accept;
    let r = h.parse_header_line(&line);
    let (a, e) = trim_ws(v);
    let t = &v[a..e];
    let mut want_ok = false;
    let mut want_expect = e0;
    let mut want_chunked = c0;
    let mut want_accept = a0;
    match PM % 4 {
        0 => {
            if eqb(t, b"100-continue") {
                want_ok = true;
                want_expect = true;
            }
        }
        1 => {
            if eqb(t, b"chunked") {
                want_ok = true;
                want_chunked = true;
            } else if eqb(t, b"identity") {
                want_ok = true;
            }
        }
        _ => {
            if eqb(t, b"text/plain") {
                want_ok = true;
                if PM % 4 == 3 {
                    want_accept = MediaType::PlainText;
                }
            } else if eqb(t, b"application/json") {
                want_ok = true;
                if PM % 4 == 3 {
                    want_accept = MediaType::ApplicationJson;
                }
            }
        }
    }
    if want_ok {
        assert!(r.is_ok(), "[C15,C13,C16] supported header value rejected");
    } else {
        assert!(matches!(r, Err(RequestError::HeaderError(HttpHeaderError::UnsupportedValue(_, _)))), "[C15,C13,C16] unsupported header value must be reported as UnsupportedValue (tolerated)");
    }
    kani::cover!(want_ok || PK % 7 >= 5 || (PM % 4 == 0) != (PK % 7 == 0), "supported value");
    kani::cover!(!want_ok, "unsupported value");
    assert!(h.expect == want_expect, "[C15,C13] expect flag");
    assert!(h.chunked == want_chunked, "[C15] chunked flag");
    assert!(h.accept == want_accept, "[C15,C16] accept media type");
    assert!(h.content_length == 0 && h.custom_entries.len() == 0);
    std::mem::forget(r);
    std::mem::forget(h);
}

// Accept-Encoding: a list of 3 items, each chosen symbolically from a menu, each padded with a
// symbolic amount of leading spaces inside a fixed-width field.
const MENU: [&[u8]; 7] = [
    b"identity",
    b"identity;q=0",
    b"*;q=0",
    b"gzip",
    b"*",
    b"identity;q=0.5",
    b"deflate;q=0",
];
const FW: usize = 16;

// @harness props=C15,C03 tiers=experimental:N=2 unwind=56 cap=2400 mem=4 covers=3
// @fn Encoding::try_from
// @claim Accept-Encoding lists: rejected (InvalidValue) iff some item is `identity;q=0`, or some item is `*;q=0` and identity is not mentioned anywhere in the value - wherever in the list the items stand; accepted otherwise
// @bounds lists of N items, each drawn symbolically from a 7-entry menu (identity, identity;q=0, *;q=0, gzip, *, identity;q=0.5, deflate;q=0), each in a 16-byte field with 0..2 symbolic leading spaces
// @stubs std::str::from_utf8(model:RFC3629-validator)
#[kani::proof]
#[kani::stub(std::str::from_utf8, crate::request::verif_kani::from_utf8_stub)]
#[kani::stub(core::slice::memchr::memchr, crate::request::verif_kani::memchr_stub)]
fn c15_accept_encoding_list() {
    let mut val = [b' '; 3 * FW + 2];
    let mut sel = [0usize; 3];
    let mut k = 0;
    while k < PN {
        let s: usize = kani::any();
        kani::assume(s < 7);
        sel[k] = s;
        let pad: usize = kani::any();
        kani::assume(pad <= 2);
        let item = MENU[s];
        let base = k * (FW + 1);
        let mut i = 0;
        while i < item.len() {
            val[base + pad + i] = item[i];
            i += 1;
        }
        if k + 1 < PN {
            val[base + FW] = b',';
        }
        k += 1;
    }
    let total = (PN * (FW + 1)).saturating_sub(1);
    let r = Encoding::try_from(&val[..total]);
    let mut has_identity_mention = false;
    let mut has_id_q0 = false;
    let mut has_star_q0 = false;
    k = 0;
    while k < PN {
        match sel[k] {
            0 | 5 => has_identity_mention = true,
            1 => {
                has_identity_mention = true;
                has_id_q0 = true;
            }
            2 => has_star_q0 = true,
            _ => {}
        }
        k += 1;
    }
    let reject = has_id_q0 || (has_star_q0 && !has_identity_mention);
    if reject {
        assert!(matches!(r, Err(RequestError::HeaderError(HttpHeaderError::InvalidValue(_, _)))), "[C15] Accept-Encoding that excludes identity not rejected");
        kani::cover!(has_star_q0 && !has_id_q0, "*;q=0 without identity");
    } else {
        assert!(r.is_ok(), "[C15] acceptable Accept-Encoding rejected");
        kani::cover!(has_star_q0 && sel[0] == 2, "*;q=0 first, identity later");
        kani::cover!(!has_star_q0);
    }
    std::mem::forget(r);
}

// @harness props=C15,C03 tiers=experimental:N=5 unwind=N+4 cap=1500 mem=4 covers=2
// @fn Encoding::try_from
// @claim short Accept-Encoding values: empty => InvalidRequest; invalid UTF-8 => InvalidUtf8String; `*;q=0` alone (modulo whitespace, in any list position) => InvalidValue; everything else of this length is accepted
// @bounds every byte string of exactly N bytes
// @stubs std::str::from_utf8(model:RFC3629-validator)
#[kani::proof]
#[kani::stub(std::str::from_utf8, crate::request::verif_kani::from_utf8_stub)]
#[kani::stub(core::slice::memchr::memchr, crate::request::verif_kani::memchr_stub)]
fn c15_accept_encoding_small() {
    let v: [u8; PN] = kani::any();
    let r = Encoding::try_from(&v[..]);
    if PN == 0 {
        assert!(matches!(r, Err(RequestError::InvalidRequest)), "[C15] empty Accept-Encoding must be rejected");
    } else if !crate::request::verif_kani::utf8_valid(&v[..]) {
        assert!(matches!(r, Err(RequestError::HeaderError(HttpHeaderError::InvalidUtf8String(_)))), "[C15] non-UTF-8 Accept-Encoding must be rejected");
        kani::cover!(true, "invalid utf-8");
    } else if all_ascii(&v[..]) {
        // an item can only be "*;q=0" (5 bytes) at these lengths; "identity" (8) cannot occur
        let mut bad = false;
        let mut s = 0;
        let mut i = 0;
        while i <= PN {
            if i == PN || v[i] == b',' {
                let (a, e) = trim_ws(&v[s..i]);
                if eqb(&v[s + a..s + e], b"*;q=0") {
                    bad = true;
                }
                s = i + 1;
            }
            i += 1;
        }
        if bad {
            assert!(matches!(r, Err(RequestError::HeaderError(HttpHeaderError::InvalidValue(_, _)))), "[C15] `*;q=0` without identity must be rejected");
        } else {
            assert!(r.is_ok(), "[C15] acceptable Accept-Encoding rejected");
        }
        kani::cover!(PN < 5 || bad, "*;q=0");
    }
    std::mem::forget(r);
}

// @harness props=C15,C02,C03 tiers=experimental:N=2,M=2|N=3,M=0 unwind=16 cap=1500 mem=4 covers=4
// @fn Headers::parse_header_line Header::try_from Headers::insert_custom_header
// @stubs std::str::from_utf8(model:RFC3629-validator) core::slice::memchr::memchr(model:first-index-loop)
// @claim unrecognised header lines: invalid UTF-8 => InvalidUtf8String; no colon => InvalidFormat; `name:value` with an unrecognised name => kept as a custom entry with name and value trimmed, split at the first colon, nothing else changes
// @bounds M>0: N arbitrary ASCII name bytes, ':', M arbitrary ASCII value bytes (no further restriction: further colons stay in the value); M=0: N arbitrary bytes without ':' (includes invalid UTF-8)
#[kani::proof]
#[kani::stub(std::str::from_utf8, crate::request::verif_kani::from_utf8_stub)]
#[kani::stub(core::slice::memchr::memchr, crate::request::verif_kani::memchr_stub)]
fn c15_generic_line() {
    const VL: usize = if PM == 0 { 0 } else { PM + 1 };
    let mut line = [0u8; PN + VL];
    let nb: [u8; PN] = kani::any();
    kani::assume(no_colon(&nb));
    let mut i = 0;
    while i < PN {
        line[i] = nb[i];
        i += 1;
    }
    let vb: [u8; PM] = kani::any();
    if PM > 0 {
        kani::assume(all_ascii(&nb) && all_ascii(&vb));
        line[PN] = b':';
        i = 0;
        while i < PM {
            line[PN + 1 + i] = vb[i];
            i += 1;
        }
    }
    let mut h = Headers::default();
    let r = h.parse_header_line(&line);
    if PM == 0 {
        if !crate::request::verif_kani::utf8_valid(&line) {
            assert!(matches!(r, Err(RequestError::HeaderError(HttpHeaderError::InvalidUtf8String(_)))), "[C15,C02] non-UTF-8 header line must be rejected");
        } else {
            assert!(matches!(r, Err(RequestError::HeaderError(HttpHeaderError::InvalidFormat(_)))), "[C15,C02] header line without colon must be rejected");
        }
        assert!(h.custom_entries.len() == 0);
    } else {
        // names this short cannot be one of the recognised headers (shortest: 6 letters)
        let (na, ne) = trim_ws(&nb);
        let (va, ve) = trim_ws(&vb);
        assert!(r.is_ok(), "[C15] unknown header must be kept as a custom entry");
        assert!(h.custom_entries.len() == 1, "[C15] custom entry not stored");
        let (k0, v0) = h.custom_entries.nth(0).unwrap();
        assert!(eqb(k0.as_bytes(), &nb[na..ne]), "[C15] custom header name not trimmed / not verbatim");
        assert!(eqb(v0.as_bytes(), &vb[va..ve]), "[C15] custom header value not trimmed / not verbatim");
    }
    let valid = crate::request::verif_kani::utf8_valid(&line);
    kani::cover!(PM > 0 || !valid, "invalid utf-8");
    kani::cover!(PM > 0 || valid, "no colon");
    kani::cover!(PM == 0 || is_ws(at(&nb[..], 0)), "padded name");
    kani::cover!(PM < 2 || at(&vb[..], 0) == b':', "second colon stays in the value");
    assert!(h.content_length == 0 && !h.expect && !h.chunked);
    std::mem::forget(r);
    std::mem::forget(h);
}

// @harness props=C15,C14,C03 tiers=experimental:N=8 unwind=N+4 cap=1800 mem=4 covers=3
// @fn Headers::try_from
// @claim parsing a header block equals parsing its lines one by one: the block is split at every CRLF (and only there), lines are handed to the line parser in order up to the first empty line, UnsupportedValue is ignored and any other error is returned; non-UTF-8 blocks are InvalidRequest
// @bounds every ASCII block of exactly N bytes; line parser replaced by the surrogate (logs the extent and an arbitrary byte of every line it is given)
// @stubs std::str::from_utf8(model:RFC3629-validator)
#[kani::proof]
#[kani::stub(std::str::from_utf8, crate::request::verif_kani::from_utf8_stub)]
#[kani::stub(core::slice::memchr::memchr, crate::request::verif_kani::memchr_stub)]
fn c14_headers_block() {
    unsafe {
        SUR_HL = true;
        crate::request::verif_kani::LOG_N = 0;
    }
    let v: [u8; PN] = kani::any();
    kani::assume(all_ascii(&v));
    let watch: usize = kani::any();
    kani::assume(watch < PN + 1);
    unsafe { crate::request::verif_kani::WATCH = watch };
    let r = Headers::try_from(&v[..]);
    // reference: walk the lines
    let mut want_err = false;
    let mut want_cl = 0u32;
    let mut want_expect = false;
    let mut nlines = 0usize;
    let mut s = 0usize;
    let mut done = false;
    let mut i = 0;
    while i <= PN && !done {
        let at_end = i == PN;
        let at_crlf = i + 1 < PN && v[i] == b'\r' && v[i + 1] == b'\n';
        if at_end || at_crlf {
            let line = &v[s..i];
            if line.is_empty() {
                done = true;
            } else {
                // the surrogate must have been called with exactly this line
                let (kind, len, d) = unsafe { crate::request::verif_kani::LOG[nlines] };
                assert!(unsafe { crate::request::verif_kani::LOG_N } > nlines, "[C14,C15] a header line was not handed to the line parser");
                assert!(kind == 2 && len == line.len(), "[C14,C15] header block split at the wrong place");
                if watch < len {
                    assert!(d == line[watch], "[C14,C15] header line bytes");
                }
                nlines += 1;
                match line[0] & 7 {
                    1 => want_cl = if line.len() > 1 { line[1] as u32 } else { 0 },
                    2 => want_expect = true,
                    4 => {
                        want_err = true;
                        done = true;
                    }
                    5 => want_cl = 0xffff_ff00 | (if line.len() > 1 { line[1] as u32 } else { 0 }),
                    _ => {}
                }
            }
            s = i + 2;
            if at_crlf {
                i += 1;
            }
        }
        i += 1;
    }
    assert!(unsafe { crate::request::verif_kani::LOG_N } == nlines, "[C14,C15] line parser called on something that is not a line of the block");
    match &r {
        Ok(h) => {
            assert!(!want_err, "[C14,C15] fatal header error swallowed");
            assert!(h.content_length == want_cl && h.expect == want_expect, "[C14,C15] block result differs from line-by-line result");
            kani::cover!(nlines >= 2, "two lines");
        }
        Err(_) => {
            assert!(want_err, "[C14,C15] header block rejected although every line is acceptable");
            kani::cover!(nlines >= 2, "error on a later line");
        }
    }
    kani::cover!(PN < 4 || (nlines == 1 && s < PN), "lines after the blank line are ignored");
    std::mem::forget(r);
}

// @harness props=C16,C15 props_thorough=C03 tiers=quick:K=3|K=4|K=6;thorough:K=3|K=4|K=6 unwind=24 cap=1500 mem=6 covers=2
// @fn MediaType::try_from MediaType::as_str
// @stubs std::str::from_utf8(model:RFC3629-validator)
// @claim media types: accepted iff the bytes, after trimming whitespace only, are exactly `text/plain` or `application/json`, with the matching variant; as_str of the result is that canonical spelling; anything else (including NUL, control or non-ASCII bytes around the token) is rejected
// @bounds one arbitrary byte, the concrete token K (text/plain, application/json, or a near miss) with its first byte replaced by an arbitrary byte, one arbitrary byte - all three bytes range over 0..=255
#[kani::proof]
#[kani::stub(std::str::from_utf8, crate::request::verif_kani::from_utf8_stub)]
fn c16_media_type() {
    const TL: usize = TOKENS[PK % 7].len();
    let tok = TOKENS[PK % 7];
    let mut v = [0u8; TL + 2];
    let sym: [u8; 3] = kani::any();
    let mut i = 0;
    while i < TL {
        v[1 + i] = tok[i];
        i += 1;
    }
    v[0] = sym[0];
    v[1] = sym[1];
    v[TL + 1] = sym[2];
    let r = MediaType::try_from(&v);
    // reference: only ASCII whitespace can be trimmed here (a lone byte >= 0x80 is not UTF-8)
    let want = if !crate::request::verif_kani::utf8_valid(&v) {
        None
    } else {
        let (a, e) = trim_ws(&v);
        let t = &v[a..e];
        if eqb(t, b"text/plain") {
            Some(MediaType::PlainText)
        } else if eqb(t, b"application/json") {
            Some(MediaType::ApplicationJson)
        } else {
            None
        }
    };
    match (&r, want) {
        (Ok(m), Some(w)) => {
            assert!(*m == w, "[C16,C15] media type parsed to the wrong variant");
            let (a, e) = trim_ws(&v);
            assert!(eqb(m.as_str().as_bytes(), &v[a..e]), "[C16] as_str differs from the canonical spelling");
        }
        (Err(_), None) => {}
        _ => panic!("[C16,C15] media type acceptance differs from the canonical spellings modulo surrounding whitespace"),
    }
    kani::cover!(PK % 7 > 4 || r.is_ok(), "accepted");
    kani::cover!(r.is_err() && sym[2] < 0x20, "rejected with a control byte after the token");
    std::mem::forget(r);
}

