// Overlay child module of `request.rs` (compiled only under cfg(kani)); see DESIGN.md.
#![allow(dead_code, unused_imports, static_mut_refs)]
use super::*;
use crate::common::{Method, Version};

// ---------------------------------------------------------------------------------------------
// Surrogate request-line parser and the dispatch hook the overlay wires into connection.rs.
// ---------------------------------------------------------------------------------------------

/// When true, `connection.rs` calls the surrogate instead of `RequestLine::try_from`.
pub(crate) static mut SUR_RL: bool = false;
/// Log of surrogate calls: (kind, len, byte at the watched index).
pub(crate) static mut LOG: [(u8, usize, u8); 8] = [(0, 0, 0); 8];
pub(crate) static mut LOG_N: usize = 0;
/// The watched index (arbitrary, chosen once per harness): two runs whose logs agree for an
/// arbitrary watched index saw byte-identical lines.
pub(crate) static mut WATCH: usize = 0;

pub(crate) fn log_push(kind: u8, line: &[u8]) {
    // SAFETY: harnesses are single-threaded.
    unsafe {
        let d = if WATCH < line.len() { line[WATCH] } else { 0 };
        if LOG_N < LOG.len() {
            LOG[LOG_N] = (kind, line.len(), d);
        }
        LOG_N += 1;
    }
}

/// Total deterministic function of the line bytes producing every outcome class the framing
/// code can distinguish: Ok with either version (and any method) or an error.
pub(crate) fn sur_request_line(line: &[u8]) -> Result<RequestLine, RequestError> {
    log_push(1, line);
    if line.is_empty() {
        return Err(RequestError::InvalidRequest);
    }
    let b = line[0];
    if b & 0x80 != 0 {
        return Err(RequestError::InvalidHttpMethod("surrogate"));
    }
    let method = match b & 3 {
        0 => Method::Get,
        1 => Method::Put,
        _ => Method::Patch,
    };
    let http_version = if b & 4 != 0 {
        Version::Http10
    } else {
        Version::Http11
    };
    Ok(RequestLine {
        method,
        uri: Uri {
            // heap string: see headers::verif_kani::nonconst_string
            string: String::from("/"),
        },
        http_version,
    })
}

pub(crate) fn request_line_hook(line: &[u8]) -> Result<RequestLine, RequestError> {
    // SAFETY: harnesses are single-threaded.
    if unsafe { SUR_RL } {
        sur_request_line(line)
    } else {
        RequestLine::try_from(line)
    }
}

pub(crate) fn mk_request_line(method: Method, http_version: Version) -> RequestLine {
    RequestLine {
        method,
        uri: Uri {
            // heap string: see headers::verif_kani::nonconst_string
            string: String::from("/"),
        },
        http_version,
    }
}

// ---------------------------------------------------------------------------------------------
// Reference oracles (written against the property statements, not the implementation)
// ---------------------------------------------------------------------------------------------
use crate::verif_params::{M as PM, N as PN};

fn cont(b: u8) -> bool {
    b >= 0x80 && b <= 0xBF
}

/// RFC 3629 well-formedness.
pub(crate) fn utf8_valid(s: &[u8]) -> bool {
    let n = s.len();
    let mut i = 0;
    while i < n {
        let b = s[i];
        let need;
        if b < 0x80 {
            i += 1;
            continue;
        } else if b >= 0xC2 && b <= 0xDF {
            need = 1;
        } else if b >= 0xE0 && b <= 0xEF {
            need = 2;
        } else if b >= 0xF0 && b <= 0xF4 {
            need = 3;
        } else {
            return false;
        }
        if i + need >= n {
            return false;
        }
        let c1 = s[i + 1];
        let ok1 = match b {
            0xE0 => c1 >= 0xA0 && c1 <= 0xBF,
            0xED => c1 >= 0x80 && c1 <= 0x9F,
            0xF0 => c1 >= 0x90 && c1 <= 0xBF,
            0xF4 => c1 >= 0x80 && c1 <= 0x8F,
            _ => cont(c1),
        };
        if !ok1 {
            return false;
        }
        if need >= 2 && !cont(s[i + 2]) {
            return false;
        }
        if need >= 3 && !cont(s[i + 3]) {
            return false;
        }
        i += need + 1;
    }
    true
}

/// Model of `core::str::from_utf8` used as a Kani stub: std's validator walks the input in
/// usize-aligned blocks (`align_offset`, pointer arithmetic), which CBMC cannot execute on more
/// than ~10 symbolic bytes in reasonable time.  The model accepts exactly the RFC 3629
/// well-formed strings (what the std function is documented to accept); the error value is a
/// genuine `Utf8Error` obtained from the (unstubbed) `from_utf8_mut` on a fixed invalid byte.
pub(crate) fn from_utf8_stub(v: &[u8]) -> Result<&str, core::str::Utf8Error> {
    if utf8_valid(v) {
        // SAFETY: just validated.
        Ok(unsafe { core::str::from_utf8_unchecked(v) })
    } else {
        let mut bad = [0xffu8];
        match core::str::from_utf8_mut(&mut bad) {
            Err(e) => Err(e),
            Ok(_) => unreachable!(),
        }
    }
}

/// Model of `core::slice::memchr::memchr` (std's version scans usize-aligned blocks with
/// pointer-alignment arithmetic): first index of `x` in `text`.
pub(crate) fn memchr_stub(x: u8, text: &[u8]) -> Option<usize> {
    let mut i = 0;
    while i < text.len() {
        if text[i] == x {
            return Some(i);
        }
        i += 1;
    }
    None
}

fn eq_bytes(a: &[u8], b: &[u8]) -> bool {
    crate::common::verif_kani::bytes_eq(a, b)
}

fn find_byte(s: &[u8], from: usize, c: u8) -> Option<usize> {
    let mut i = from;
    while i < s.len() {
        if s[i] == c {
            return Some(i);
        }
        i += 1;
    }
    None
}

/// expected outcome class of RequestLine::try_from: 0 ok, 1 InvalidRequest, 2 method, 3 uri, 4 version
fn ref_request_line(line: &[u8]) -> (u8, usize, usize) {
    let sp1 = match find_byte(line, 0, b' ') {
        Some(i) => i,
        None => return (1, 0, 0),
    };
    let sp2 = match find_byte(line, sp1 + 1, b' ') {
        Some(i) => i,
        None => return (1, 0, 0),
    };
    let m = &line[..sp1];
    let u = &line[sp1 + 1..sp2];
    let v = &line[sp2 + 1..];
    if !(eq_bytes(m, b"GET") || eq_bytes(m, b"PUT") || eq_bytes(m, b"PATCH")) {
        return (2, 0, 0);
    }
    if u.is_empty() || !utf8_valid(u) {
        return (3, 0, 0);
    }
    if !(eq_bytes(v, b"HTTP/1.0") || eq_bytes(v, b"HTTP/1.1")) {
        return (4, 0, 0);
    }
    (0, sp1, sp2)
}

// @harness props=C02,C03 props_thorough=C14 tiers=quick:N=6|N=14|N=16;thorough:N=0|N=1|N=2|N=3|N=4|N=5|N=6|N=7|N=8|N=9|N=10|N=11|N=12|N=13|N=14|N=15|N=16|N=17 unwind=N+2 cap=1500 mem=3
// @fn RequestLine::try_from RequestLine::parse_request_line Method::try_from Uri::try_from Version::try_from request::find
// @claim the real request-line parser accepts exactly `METHOD SP URI SP VERSION` (METHOD in GET/PUT/PATCH, URI non-empty valid UTF-8 without SP, VERSION HTTP/1.0|1.1) with method, URI bytes and version delivered verbatim; otherwise the error kind names the first offending element in the order shape, method, URI, version
// @bounds every byte string of length exactly N (all bytes symbolic), one query per N
// @stubs std::str::from_utf8(model:RFC3629-validator)
#[kani::proof]
#[kani::stub(std::str::from_utf8, from_utf8_stub)]
fn c02_request_line() {
    let line: [u8; PN] = kani::any();
    let r = RequestLine::try_from(&line[..]);
    let (class, sp1, sp2) = ref_request_line(&line[..]);
    match &r {
        Ok(rl) => {
            assert!(class == 0, "[C02] request line outside the grammar accepted");
            assert!(eq_bytes(rl.method.raw(), &line[..sp1]), "[C02] delivered method differs from the bytes");
            assert!(eq_bytes(rl.http_version.raw(), &line[sp2 + 1..]), "[C02] delivered version differs from the bytes");
            let u = rl.uri.string.as_bytes();
            assert!(u.len() == sp2 - sp1 - 1, "[C02] delivered URI length differs from the bytes");
            let j: usize = kani::any();
            kani::assume(j < u.len());
            assert!(u[j] == line[sp1 + 1 + j], "[C02] delivered URI differs from the bytes");
        }
        Err(RequestError::InvalidRequest) => assert!(class == 1, "[C02] error kind does not name the first offending element (shape)"),
        Err(RequestError::InvalidHttpMethod(_)) => assert!(class == 2, "[C02] error kind does not name the first offending element (method)"),
        Err(RequestError::InvalidUri(_)) => assert!(class == 3, "[C02] error kind does not name the first offending element (URI)"),
        Err(RequestError::InvalidHttpVersion(_)) => assert!(class == 4, "[C02] error kind does not name the first offending element (version)"),
        Err(_) => panic!("[C02] unexpected error kind from the request-line parser"),
    }
    kani::cover!(PN < 14 || r.is_ok(), "accepted");
    kani::cover!(PN < 6 || class == 3, "bad uri");
    kani::cover!(PN < 6 || class == 2, "bad method");
    kani::cover!(class == 1, "bad shape");
    std::mem::forget(r);
}

// @harness props=C16,C03 tiers=quick:N=5,M=0|N=11,M=1;thorough:N=0,M=0|N=1,M=0|N=2,M=0|N=3,M=0|N=5,M=0|N=7,M=0|N=8,M=0|N=9,M=0|N=8,M=1|N=9,M=1|N=10,M=1|N=11,M=1|N=12,M=1 unwind=N+2 cap=1500 mem=2
// @fn Uri::get_abs_path
// @claim abs_path is the URI itself if it starts with '/', the part from the first '/' after the authority for http://authority/..., empty otherwise; the result is a sub-slice of the URI (same bytes, same position)
// @bounds every valid-UTF-8 URI of exactly N bytes; with M=1 the first 7 bytes are the concrete prefix `http://` and the remaining N-7 are symbolic
// @stubs std::str::from_utf8(model:RFC3629-validator)
#[kani::proof]
#[kani::stub(std::str::from_utf8, from_utf8_stub)]
fn c16_uri_abs_path() {
    let mut bytes: [u8; PN] = kani::any();
    if PM == 1 {
        let p = b"http://";
        let mut i = 0;
        while i < 7 && i < PN {
            bytes[i] = p[i];
            i += 1;
        }
    }
    let s = match String::from_utf8(bytes.to_vec()) {
        Ok(s) => s,
        Err(e) => {
            std::mem::forget(e);
            return;
        }
    };
    let uri = Uri { string: s };
    let res = uri.get_abs_path();
    // reference
    let b = &bytes[..];
    let mut want_off: Option<usize> = None; // None => ""
    if PN >= 7 && eq_bytes(&b[..7], b"http://") {
        if PN > 7 {
            if let Some(i) = find_byte(b, 7, b'/') {
                want_off = Some(i);
            }
        }
    } else if PN >= 1 && b[0] == b'/' {
        want_off = Some(0);
    }
    match want_off {
        None => assert!(res.is_empty(), "[C16] abs_path must be empty for this URI"),
        Some(off) => {
            assert!(res.len() == PN - off, "[C16] abs_path is not the expected suffix of the URI (length)");
            assert!(res.as_bytes()[0] == b'/', "[C16] abs_path does not start with '/'");
            let j: usize = kani::any();
            kani::assume(j < res.len());
            assert!(res.as_bytes()[j] == b[off + j], "[C16] abs_path is not the expected suffix of the URI (bytes)");

        }
    }
    kani::cover!(PM != 1 || PN <= 9 || matches!(want_off, Some(o) if o > 7), "path after a non-empty authority");
    kani::cover!(want_off.is_none(), "empty path");
    std::mem::forget(uri);
}

// ---------------------------------------------------------------------------------------------
// C14: one-shot parser framing, content parsers surrogated through the hooks
// ---------------------------------------------------------------------------------------------
fn ref_find_seq(s: &[u8], from: usize, pat: &[u8]) -> Option<usize> {
    let mut i = from;
    while i + pat.len() <= s.len() {
        let mut k = 0;
        let mut ok = true;
        while k < pat.len() {
            if s[i + k] != pat[k] {
                ok = false;
            }
            k += 1;
        }
        if ok {
            return Some(i);
        }
        i += 1;
    }
    None
}

// @harness props=C14,C03 tiers=quick:N=23;thorough:N=18|N=20|N=22|N=23|N=24 unwind=N+2 cap=2400 mem=3
// @fn Request::try_from request::find RequestLine::min_len
// @claim one-shot framing == reference splitter: reject if len>=max; request line = bytes up to the first CRLF (>= 14 bytes) handed to the line parser; first CRLFCRLF at or after it ends the header block, which is handed over exactly; body must be exactly Content-Length bytes, a GET must not declare one; without a declared length trailing bytes are ignored; no panic on any input (headers_end - CRLF_LEN, len - crlf_end and all slices)
// @bounds every input of exactly N bytes (all symbolic); max_len None or Some(symbolic); request-line and header-block content parsers replaced by surrogates
#[kani::proof]
fn c14_oneshot_framing() {
    unsafe {
        SUR_RL = true;
        crate::headers::verif_kani::SUR_HB = true;
        LOG_N = 0;
    }
    let bytes: [u8; PN] = kani::any();
    let watch: usize = kani::any();
    kani::assume(watch < PN);
    unsafe { WATCH = watch };
    let max_len: Option<usize> = if kani::any() { Some(kani::any()) } else { None };
    let r = Request::try_from(&bytes[..], max_len);
    // ---- reference ----
    let b = &bytes[..];
    // class: 0 ok, 1 InvalidRequest, 2 line-parser error, 3 header-parser error
    let mut class = 0u8;
    let mut want_body: Option<(usize, usize)> = None;
    let mut want_cl = 0u32;
    let mut e1 = 0usize;
    let mut hb: Option<(usize, usize)> = None;
    let too_long = matches!(max_len, Some(l) if PN >= l);
    if too_long {
        class = 1;
    } else {
        match ref_find_seq(b, 0, b"\r\n") {
            None => class = 1,
            Some(e) => {
                e1 = e;
                if e < 14 {
                    class = 1;
                } else if b[0] & 0x80 != 0 {
                    class = 2;
                } else {
                    match ref_find_seq(b, e, b"\r\n\r\n") {
                        None => class = 1,
                        Some(h) if h == e => {}
                        Some(h) => {
                            hb = Some((e + 2, h));
                            let first = b[e + 2];
                            if first & 0x80 != 0 {
                                class = 3;
                            } else {
                                want_cl = (first & 0x0f) as u32;
                                if want_cl != 0 {
                                    let is_get = b[0] & 3 == 0;
                                    let body_start = h + 4;
                                    if is_get || PN - body_start != want_cl as usize {
                                        class = 1;
                                    } else {
                                        want_body = Some((body_start, PN));
                                    }
                                }
                            }
                        }
                    }
                }
            }
        }
    }
    match &r {
        Ok(req) => {
            assert!(class == 0, "[C14] one-shot parser accepted a slice the reference framing rejects");
            assert!(req.headers.content_length() == want_cl, "[C14] header block not taken from the expected extent");
            match (&req.body, want_body) {
                (None, None) => {}
                (Some(body), Some((s, e))) => {
                    assert!(body.len() == e - s, "[C14] one-shot body length");
                    let j: usize = kani::any();
                    kani::assume(j < e - s);
                    assert!(body.raw()[j] == b[s + j], "[C14] one-shot body bytes");

                }
                _ => panic!("[C14] one-shot body presence differs from the reference"),
            }
            // the line parser saw exactly bytes[..e1]
            let (k0, l0, d0) = unsafe { LOG[0] };
            assert!(k0 == 1 && l0 == e1, "[C14] request line extent");
            if watch < e1 {
                assert!(d0 == b[watch], "[C14] request line bytes");
            }
            if let Some((hs, he)) = hb {
                let (k1, l1, d1) = unsafe { LOG[1] };
                assert!(unsafe { LOG_N } == 2 && k1 == 3 && l1 == he - hs, "[C14] header block extent");
                if watch < l1 {
                    assert!(d1 == b[hs + watch], "[C14] header block bytes");
                }
            } else {
                assert!(unsafe { LOG_N } == 1);

            }
        }
        Err(RequestError::InvalidRequest) => assert!(class == 1, "[C14] one-shot parser rejected a slice the reference framing accepts (or with another error)"),
        Err(RequestError::InvalidHttpMethod(_)) => assert!(class == 2, "[C14] line-parser error expected"),
        Err(RequestError::HeaderError(_)) => assert!(class == 3, "[C14] header-parser error expected"),
        Err(_) => panic!("[C14] unexpected error kind"),
    }
    kani::cover!(PN < 22 || (r.is_ok() && want_body.is_some()), "accepted with body");
    kani::cover!(PN < 23 || (class == 1 && want_cl != 0 && hb.is_some() && !too_long && e1 >= 14), "declared length differs from the bytes present");
    kani::cover!(r.is_ok() && hb.is_none(), "accepted without headers");
    kani::cover!(class == 1 && !too_long && e1 >= 14, "rejected by framing after the request line");
    std::mem::forget(r);
}
