// Overlay child module of `common/mod.rs` (compiled only under cfg(kani)); see DESIGN.md.
#![allow(dead_code, unused_imports)]
use super::*;

pub(crate) fn bytes_eq(a: &[u8], b: &[u8]) -> bool {
    if a.len() != b.len() {
        return false;
    }
    let mut i = 0;
    while i < a.len() {
        if a[i] != b[i] {
            return false;
        }
        i += 1;
    }
    true
}

// @harness props=C16,C02 props_thorough=C03 unwind=12 cap=600 mem=1 covers=4
// @fn Method::try_from Method::raw Method::to_str
// @claim accept <=> slice is exactly GET / PUT / PATCH (case-sensitive), with the matching variant; raw/to_str round-trip
// @bounds every byte string of length 0..=10 (length and bytes symbolic)
#[kani::proof]
fn c16_method_exact() {
    let bytes: [u8; 10] = kani::any();
    let len: usize = kani::any();
    kani::assume(len <= 10);
    let s = &bytes[..len];
    let r = Method::try_from(s);
    let want = if bytes_eq(s, b"GET") {
        Some(Method::Get)
    } else if bytes_eq(s, b"PUT") {
        Some(Method::Put)
    } else if bytes_eq(s, b"PATCH") {
        Some(Method::Patch)
    } else {
        None
    };
    match (&r, want) {
        (Ok(m), Some(w)) => {
            assert!(*m == w, "[C16,C02] method parsed to the wrong variant");
            assert!(bytes_eq(m.raw(), s) && bytes_eq(m.to_str().as_bytes(), s), "[C16] raw/to_str differ from the parsed bytes");
        }
        (Err(RequestError::InvalidHttpMethod(_)), None) => {}
        _ => panic!("[C16,C02] method acceptance differs from the canonical set"),
    }
    kani::cover!(matches!(r, Ok(Method::Get)));
    kani::cover!(matches!(r, Ok(Method::Put)));
    kani::cover!(matches!(r, Ok(Method::Patch)));
    kani::cover!(r.is_err() && len == 5);
    std::mem::forget(r);
}

// @harness props=C16,C02 props_thorough=C03 unwind=12 cap=600 mem=1 covers=3
// @fn Version::try_from Version::raw
// @claim accept <=> slice is exactly HTTP/1.0 or HTTP/1.1, with the matching variant; raw round-trips
// @bounds every byte string of length 0..=10 (length and bytes symbolic)
#[kani::proof]
fn c16_version_exact() {
    let bytes: [u8; 10] = kani::any();
    let len: usize = kani::any();
    kani::assume(len <= 10);
    let s = &bytes[..len];
    let r = Version::try_from(s);
    let want = if bytes_eq(s, b"HTTP/1.0") {
        Some(Version::Http10)
    } else if bytes_eq(s, b"HTTP/1.1") {
        Some(Version::Http11)
    } else {
        None
    };
    match (&r, want) {
        (Ok(v), Some(w)) => {
            assert!(*v == w, "[C16,C02] version parsed to the wrong variant");
            assert!(bytes_eq(v.raw(), s), "[C16] raw differs from the parsed bytes");
        }
        (Err(RequestError::InvalidHttpVersion(_)), None) => {}
        _ => panic!("[C16,C02] version acceptance differs from the canonical set"),
    }
    kani::cover!(matches!(r, Ok(Version::Http10)));
    kani::cover!(matches!(r, Ok(Version::Http11)));
    kani::cover!(r.is_err() && len == 8);
    std::mem::forget(r);
}
