#!/usr/bin/env python3
"""killcheck.py <PROP>...: kill running `./check <PROP>` runs with all their children and remove
their scratch directories (development helper)."""
import os, signal, sys, glob, shutil
props = sys.argv[1:]
me = os.getpid()
victims = []
for pid in filter(str.isdigit, os.listdir('/proc')):
    try:
        argv = open('/proc/%s/cmdline' % pid, 'rb').read().split(b'\0')
    except OSError:
        continue
    argv = [a.decode(errors='replace') for a in argv if a]
    if int(pid) == me or len(argv) < 3:
        continue
    if argv[0].endswith('python3') and argv[1].endswith('check') and argv[2] in props:
        victims.append(int(pid))
for pid in victims:
    try:
        # every job runs in its own session (setsid); kill sessions of the children
        for child in os.listdir('/proc'):
            if child.isdigit():
                try:
                    st = open('/proc/%s/stat' % child).read().split()
                    if int(st[3]) == pid:
                        os.killpg(int(child), signal.SIGKILL)
                except Exception:
                    pass
        os.kill(pid, signal.SIGKILL)
    except ProcessLookupError:
        pass
for p in props:
    for d in glob.glob('/tmp/verif_%s_*' % p):
        shutil.rmtree(d, ignore_errors=True)
print('killed', victims)
