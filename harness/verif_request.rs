// Overlay child module of `request.rs` (compiled only under cfg(kani)); see DESIGN.md.
#![allow(dead_code, unused_imports, static_mut_refs)]
use super::*;
use crate::common::{Method, Version};

// ---------------------------------------------------------------------------------------------
// Surrogate request-line parser and the dispatch hook the overlay wires into connection.rs.
// ---------------------------------------------------------------------------------------------

/// When true, `connection.rs` calls the surrogate instead of `RequestLine::try_from`.
pub(crate) static mut SUR_RL: bool = false;
/// Log of surrogate calls: (kind, len, byte at the watched index).
pub(crate) static mut LOG: [(u8, usize, u8); 8] = [(0, 0, 0); 8];
pub(crate) static mut LOG_N: usize = 0;
/// The watched index (arbitrary, chosen once per harness): two runs whose logs agree for an
/// arbitrary watched index saw byte-identical lines.
pub(crate) static mut WATCH: usize = 0;

pub(crate) fn log_push(kind: u8, line: &[u8]) {
    // SAFETY: harnesses are single-threaded.
    unsafe {
        let d = if WATCH < line.len() { line[WATCH] } else { 0 };
        if LOG_N < LOG.len() {
            LOG[LOG_N] = (kind, line.len(), d);
        }
        LOG_N += 1;
    }
}

/// Total deterministic function of the line bytes producing every outcome class the framing
/// code can distinguish: Ok with either version (and any method) or an error.
pub(crate) fn sur_request_line(line: &[u8]) -> Result<RequestLine, RequestError> {
    log_push(1, line);
    if line.is_empty() {
        return Err(RequestError::InvalidRequest);
    }
    let b = line[0];
    if b & 0x80 != 0 {
        return Err(RequestError::InvalidHttpMethod("surrogate"));
    }
    let method = match b & 3 {
        0 => Method::Get,
        1 => Method::Put,
        _ => Method::Patch,
    };
    let http_version = if b & 4 != 0 {
        Version::Http10
    } else {
        Version::Http11
    };
    Ok(RequestLine {
        method,
        uri: Uri {
            string: String::new(),
        },
        http_version,
    })
}

pub(crate) fn request_line_hook(line: &[u8]) -> Result<RequestLine, RequestError> {
    // SAFETY: harnesses are single-threaded.
    if unsafe { SUR_RL } {
        sur_request_line(line)
    } else {
        RequestLine::try_from(line)
    }
}

pub(crate) fn mk_request_line(method: Method, http_version: Version) -> RequestLine {
    RequestLine {
        method,
        uri: Uri {
            string: String::new(),
        },
        http_version,
    }
}
