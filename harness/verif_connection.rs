// Overlay child module of `connection.rs` (compiled only under cfg(kani)); see DESIGN.md.
#![allow(dead_code, unused_imports, static_mut_refs)]
use super::*;
use crate::common::{Method, Version};
use crate::headers::verif_kani as hk;
use crate::request::verif_kani as rk;
use std::cell::Cell;
use std::os::unix::io::{AsRawFd, RawFd};

pub(crate) const B: usize = BUFFER_SIZE;

// ---------------------------------------------------------------------------------------------
// Mock stream: every answer of the stream is a harness-controlled (symbolic) value.
// ---------------------------------------------------------------------------------------------
pub(crate) const MAXFD: usize = 3;

pub(crate) struct Mock {
    /// bytes the next `recv` delivers (first `chunk_len` of `chunk`, truncated to the iovec).
    pub chunk: Cell<[u8; B]>,
    pub chunk_len: Cell<usize>,
    /// if set, `recv` fails with this errno instead.
    pub recv_errno: Cell<i32>,
    pub fds: Cell<[RawFd; MAXFD]>,
    pub nfds: Cell<usize>,
    pub recv_calls: Cell<usize>,
    /// iovec seen by the last recv.
    pub last_iov_len: Cell<usize>,
    // write side
    pub write_calls: usize,
    /// what `write` answers: >=0 => Ok(min(k, len)); -1 Interrupted; -2 WouldBlock; -3 BrokenPipe
    pub write_answer: isize,
    pub last_write_len: usize,
    /// how many more calls are answered `Interrupted` when write_answer == -1 (then: everything
    /// accepted) - a retry loop around an interrupted write must terminate to be observable
    pub eintr_budget: usize,
    /// byte of the last written buffer at WATCHW (if in range)
    pub last_write_watch: u8,
    pub watchw: usize,
}

impl Mock {
    pub fn new() -> Self {
        Mock {
            chunk: Cell::new([0; B]),
            chunk_len: Cell::new(0),
            recv_errno: Cell::new(0),
            fds: Cell::new([0; MAXFD]),
            nfds: Cell::new(0),
            recv_calls: Cell::new(0),
            last_iov_len: Cell::new(0),
            write_calls: 0,
            write_answer: 0,
            last_write_len: 0,
            eintr_budget: 1,
            last_write_watch: 0,
            watchw: 0,
        }
    }
    pub fn feed(&self, chunk: [u8; B], len: usize) {
        self.chunk.set(chunk);
        self.chunk_len.set(len);
    }
}

impl Read for Mock {
    fn read(&mut self, _buf: &mut [u8]) -> std::io::Result<usize> {
        // HttpConnection never calls `read`; it receives through `recv_with_fds`.
        panic!("verif: unexpected Read::read");
    }
}

impl Write for Mock {
    fn write(&mut self, buf: &[u8]) -> std::io::Result<usize> {
        self.write_calls += 1;
        self.last_write_len = buf.len();
        self.last_write_watch = if self.watchw < buf.len() {
            buf[self.watchw]
        } else {
            0
        };
        match self.write_answer {
            -1 if self.eintr_budget == 0 => Ok(buf.len()),
            -1 => {
                self.eintr_budget -= 1;
                Err(std::io::Error::from(std::io::ErrorKind::Interrupted))
            }
            -2 => Err(std::io::Error::from(std::io::ErrorKind::WouldBlock)),
            -3 => Err(std::io::Error::from(std::io::ErrorKind::BrokenPipe)),
            k => Ok(std::cmp::min(k as usize, buf.len())),
        }
    }
    fn flush(&mut self) -> std::io::Result<()> {
        Ok(())
    }
}

impl ScmSocket for Mock {
    fn socket_fd(&self) -> RawFd {
        -1
    }
    unsafe fn recv_with_fds(
        &self,
        iovecs: &mut [libc::iovec],
        fds: &mut [RawFd],
    ) -> vmm_sys_util::errno::Result<(usize, usize)> {
        self.recv_calls.set(self.recv_calls.get() + 1);
        let iov = iovecs[0];
        self.last_iov_len.set(iov.iov_len);
        if self.recv_errno.get() != 0 {
            return Err(vmm_sys_util::errno::Error::new(self.recv_errno.get()));
        }
        // Kernel contract: never more than the iovec holds.
        let n = std::cmp::min(self.chunk_len.get(), iov.iov_len);
        let chunk = self.chunk.get();
        let dst = iov.iov_base as *mut u8;
        let mut i = 0;
        while i < n {
            *dst.add(i) = chunk[i];
            i += 1;
        }
        let k = std::cmp::min(self.nfds.get(), fds.len());
        let src = self.fds.get();
        let mut j = 0;
        while j < k {
            fds[j] = src[j];
            j += 1;
        }
        Ok((n, k))
    }
}

pub(crate) fn set_surrogates(on: bool) {
    // SAFETY: single-threaded harness.
    unsafe {
        rk::SUR_RL = on;
        hk::SUR_HL = on;
        rk::LOG_N = 0;
    }
}


// ---------------------------------------------------------------------------------------------
// Pre-state builders: concrete shape, symbolic contents (DESIGN.md §2.2).
// ---------------------------------------------------------------------------------------------
#[derive(Clone, Copy, PartialEq)]
pub(crate) enum Shape {
    RL,
    HD,
    BD,
}

pub(crate) fn any_method() -> Method {
    match kani::any::<u8>() & 3 {
        0 => Method::Get,
        1 => Method::Put,
        _ => Method::Patch,
    }
}
pub(crate) fn any_version() -> Version {
    if kani::any() {
        Version::Http10
    } else {
        Version::Http11
    }
}

pub(crate) fn any_pending(content_length: u32, with_body: bool) -> Request {
    let mut headers = Headers::default();
    hk::set_fields(&mut headers, content_length, kani::any(), kani::any());
    Request {
        request_line: rk::mk_request_line(any_method(), any_version()),
        headers,
        body: if with_body {
            Some(Body::new(vec![]))
        } else {
            None
        },
        files: Vec::new(),
    }
}

/// A connection in an arbitrary state of the given shape satisfying the invariant `Inv`
/// except for the buffer contents / read_cursor, which the caller constrains.
pub(crate) fn mk_conn(shape: Shape, body_have: usize) -> HttpConnection<Mock> {
    let mut conn = HttpConnection::new(Mock::new());
    conn.buffer = kani::any();
    conn.payload_max_size = kani::any();
    // a stale cursor must never matter: every step overwrites it before it is used again
    conn.read_cursor = kani::any();
    kani::assume(conn.read_cursor < B);
    match shape {
        Shape::RL => {}
        Shape::HD => {
            conn.state = ConnectionState::WaitingForHeaders;
            conn.pending_request = Some(any_pending(kani::any(), false));
        }
        Shape::BD => {
            conn.state = ConnectionState::WaitingForBody;
            let todo: u32 = kani::any();
            kani::assume(todo >= 1);
            // beyond the window the counter is only compared and decremented; a symbolic
            // multi-gigabyte Vec length makes CBMC's memory model explode (16 GB at B=8)
            kani::assume(todo <= 4 * B as u32);
            let mut i = 0;
            while i < body_have {
                conn.body_vec.push(kani::any());
                i += 1;
            }
            conn.body_bytes_to_be_read = todo;
            conn.pending_request = Some(any_pending(todo + body_have as u32, true));
        }
    }
    conn
}

pub(crate) fn state_code<T>(c: &HttpConnection<T>) -> u8 {
    match c.state {
        ConnectionState::WaitingForRequestLine => 0,
        ConnectionState::WaitingForHeaders => 1,
        ConnectionState::WaitingForBody => 2,
        ConnectionState::RequestReady => 3,
    }
}

/// Reference: index of the first CR LF pair in w[start..end), absolute.
fn ref_find_crlf(w: &[u8; B], start: usize, end: usize) -> Option<usize> {
    let mut i = start;
    while i + 1 < end {
        if w[i] == b'\r' && w[i + 1] == b'\n' {
            return Some(i);
        }
        i += 1;
    }
    None
}

fn is_parse_err<T>(r: &Result<T, ConnectionError>) -> bool {
    matches!(r, Err(ConnectionError::ParseError(_)))
}

// ---------------------------------------------------------------------------------------------
// F-contract: parse_request_line
// ---------------------------------------------------------------------------------------------
// @harness props=C01,C02,C04,C14,C03,C08 tiers=quick:B=8;thorough:B=16 unwind=B+2 cap=1500 mem=2 covers=3
// @fn HttpConnection::parse_request_line request::find HttpConnection::shift_buffer_left
// @claim F-contract(request line): first CRLF at i => line parser called once on w[start..i), start'=i+2, state Headers, fresh pending request; no CRLF => InvalidRequest iff start==0 && end==B, else Ok(false), read_cursor=end-start and the bytes carried to offset 0; queues untouched
// @bounds window B bytes, arbitrary contents, arbitrary 0<=start<=end<=B; request-line content parser replaced by the surrogate
#[kani::proof]
fn fc_request_line() {
    set_surrogates(true);
    let mut conn = mk_conn(Shape::RL, 0);
    let w = conn.buffer;
    let start: usize = kani::any();
    let end: usize = kani::any();
    kani::assume(start <= end && end <= B);
    let watch: usize = kani::any();
    kani::assume(watch < B);
    unsafe { rk::WATCH = watch };
    let mut s = start;
    let r = conn.parse_request_line(&mut s, end);
    match ref_find_crlf(&w, start, end) {
        Some(i) => {
            // the surrogate was called exactly once, on w[start..i)
            let (kind, len, d) = unsafe { rk::LOG[0] };
            assert!(unsafe { rk::LOG_N } == 1 && kind == 1 && len == i - start);
            if watch < len {
                assert!(d == w[start + watch]);
            }
            let expect_err = len == 0 || w[start] & 0x80 != 0;
            if expect_err {
                assert!(is_parse_err(&r));
            } else {
                assert!(matches!(r, Ok(true)));
                assert!(s == i + 2);
                assert!(state_code(&conn) == 1);
                let p = conn.pending_request.as_ref().unwrap();
                assert!(p.body.is_none() && p.files.is_empty());
                assert!(p.headers.content_length() == 0 && !p.headers.expect());
                kani::cover!(true, "line found and accepted");
            }
        }
        None => {
            assert!(unsafe { rk::LOG_N } == 0);
            if start == 0 && end == B {
                assert!(matches!(
                    r,
                    Err(ConnectionError::ParseError(RequestError::InvalidRequest))
                ));
                kani::cover!(true, "line too long");
            } else {
                assert!(matches!(r, Ok(false)));
                assert!(conn.read_cursor == end - start);
                let j: usize = kani::any();
                kani::assume(j < end - start);
                assert!(conn.buffer[j] == w[start + j]);
                assert!(state_code(&conn) == 0 && conn.pending_request.is_none());
                kani::cover!(start > 0 && end > start, "carried with shift");
            }
        }
    }
    assert!(conn.parsed_requests.is_empty() && conn.response_queue.is_empty());
    assert!(conn.stream.recv_calls.get() == 0, "[C03] a parse step received from the stream (more than one receive per try_read)");
    std::mem::forget(r);
    std::mem::forget(conn);
}


fn resp_is_continue(r: &Response, v: Version) -> bool {
    r.status() == StatusCode::Continue && r.http_version() == v && r.body().is_none()
}

// ---------------------------------------------------------------------------------------------
// F-contract: parse_headers
// ---------------------------------------------------------------------------------------------
// @harness props=C01,C02,C04,C13,C14,C03,C08 tiers=quick:B=8;thorough:B=16 unwind=B+2 cap=1500 mem=3 covers=7
// @fn HttpConnection::parse_headers request::find HttpConnection::shift_buffer_left Response::new
// @stubs std::string::String::from_utf8_lossy
// @claim F-contract(headers): CRLF at start => end of headers: content_length 0 -> RequestReady; n>limit -> SizeLimitExceeded(limit,n) (full width n:u32, limit:usize); else WaitingForBody with counter n, empty body, exactly one 100-continue with the request's version iff expect; CRLF at i>start => header parser called once on w[start..i), fatal error propagated, UnsupportedValue ignored, start'=i+2; no CRLF => header SizeLimitExceeded iff start==0 && end==B else carried to offset 0
// @bounds window B bytes, arbitrary contents, arbitrary 0<=start<=end<=B; pending request with arbitrary content_length/expect/method/version; header-line content parser replaced by the surrogate
#[kani::proof]
#[kani::stub(std::string::String::from_utf8_lossy, hk::lossy_stub)]
fn fc_headers() {
    set_surrogates(true);
    let mut conn = mk_conn(Shape::HD, 0);
    let w = conn.buffer;
    let start: usize = kani::any();
    let end: usize = kani::any();
    kani::assume(start <= end && end <= B);
    let watch: usize = kani::any();
    kani::assume(watch < B);
    unsafe { rk::WATCH = watch };
    let limit = conn.payload_max_size;
    let (cl0, expect0, version0, method0) = {
        let p = conn.pending_request.as_ref().unwrap();
        (p.headers.content_length(), p.headers.expect(), p.http_version(), p.method())
    };
    let mut s = start;
    let r = conn.parse_headers(&mut s, end);
    let qlen = conn.response_queue.len();
    match ref_find_crlf(&w, start, end) {
        Some(i) if i == start => {
            assert!(unsafe { rk::LOG_N } == 0, "[C02] header parser called on the blank line");
            if cl0 == 0 {
                assert!(matches!(r, Ok(true)));
                assert!(state_code(&conn) == 3 && s == start + 2);
                assert!(qlen == 0, "[C13] interim response queued for a request without body");
                assert!(conn.pending_request.as_ref().unwrap().body.is_none());
                kani::cover!(true, "end of headers, no body");
            } else if cl0 as u64 > limit as u64 {
                match &r {
                    Err(ConnectionError::ParseError(RequestError::SizeLimitExceeded(l, n))) => {
                        assert!(*l == limit && *n == cl0 as usize, "[C04] size-limit error reports the wrong numbers");
                    }
                    _ => panic!("[C04] oversized declaration not rejected at the end of headers"),
                }
                assert!(qlen == 0, "[C13] interim response queued for a rejected request");
                kani::cover!(cl0 as u64 == limit as u64 + 1, "limit exceeded by one");
            } else {
                assert!(matches!(r, Ok(true)), "[C04] declaration within the limit rejected");
                kani::cover!(cl0 as u64 == limit as u64, "declaration equal to the limit");
                assert!(state_code(&conn) == 2 && s == start + 2);
                assert!(conn.body_bytes_to_be_read == cl0);
                assert!(conn.body_vec.is_empty());
                let p = conn.pending_request.as_ref().unwrap();
                assert!(matches!(&p.body, Some(b) if b.is_empty()));
                if expect0 {
                    assert!(qlen == 1, "[C13] 100-continue not queued exactly once");
                    assert!(resp_is_continue(&conn.response_queue[0], version0), "[C13] interim response has the wrong status or version");
                    kani::cover!(true, "100-continue queued");
                } else {
                    assert!(qlen == 0, "[C13] 100-continue queued without Expect");
                }
            }
        }
        Some(i) => {
            let (kind, len, d) = unsafe { rk::LOG[0] };
            assert!(unsafe { rk::LOG_N } == 1 && kind == 2 && len == i - start, "[C01,C02] header line handed to the parser has the wrong extent");
            if watch < len {
                assert!(d == w[start + watch], "[C01,C02] header line handed to the parser has the wrong bytes");
            }
            assert!(qlen == 0);
            let b = w[start] & 7;
            if b == 4 {
                assert!(matches!(r, Err(ConnectionError::ParseError(RequestError::HeaderError(HttpHeaderError::InvalidFormat(_))))), "[C02] fatal header error not propagated");
            } else {
                assert!(matches!(r, Ok(true)), "[C02,C15] acceptable or ignorable header line rejected");
                assert!(s == i + 2 && state_code(&conn) == 1);
                let p = conn.pending_request.as_ref().unwrap();
                let b1 = if len > 1 { w[start + 1] as u32 } else { 0 };
                let want_cl = if b == 1 { b1 } else if b == 5 { 0xffff_ff00 | b1 } else { cl0 };
                assert!(p.headers.content_length() == want_cl);
                assert!(p.headers.expect() == (expect0 || b == 2));
                assert!(p.http_version() == version0 && p.method() == method0);
                kani::cover!(b == 3, "unsupported value ignored");
            }
        }
        None => {
            assert!(unsafe { rk::LOG_N } == 0);
            assert!(qlen == 0);
            if start == 0 && end == B {
                assert!(matches!(r, Err(ConnectionError::ParseError(RequestError::HeaderError(HttpHeaderError::SizeLimitExceeded(_))))), "[C04] over-long header line not rejected");
                kani::cover!(true, "header line too long");
            } else {
                assert!(matches!(r, Ok(false)), "[C04] header line rejected although it may still fit");
                assert!(conn.read_cursor == end - start, "[C01] read cursor after carrying an incomplete header line");
                let j: usize = kani::any();
                kani::assume(j < end - start);
                assert!(conn.buffer[j] == w[start + j], "[C01] carried bytes differ");
                assert!(state_code(&conn) == 1);
                kani::cover!(start > 0 && end > start + 1, "carried with shift");
            }
        }
    }
    assert!(conn.parsed_requests.is_empty());
    assert!(conn.stream.recv_calls.get() == 0, "[C03] a parse step received from the stream (more than one receive per try_read)");
    std::mem::forget(r);
    std::mem::forget(conn);
}

// ---------------------------------------------------------------------------------------------
// F-contract: parse_body
// ---------------------------------------------------------------------------------------------
/// One parse_body call with *concrete* sizes: `avail` bytes in the window, `todo` either a
/// concrete value <= avail (Some) or symbolic and larger than avail (None).  (Symbolic Vec
/// lengths in extend_from_slice / drain exhaust CBMC's memory: >16 GB at B=8.)
fn fc_body_case(have: usize, avail: usize, todo_c: Option<u32>, start_c: Option<usize>) {
    let mut conn = mk_conn(Shape::BD, have);
    let todo: u32 = match todo_c {
        Some(t) => t,
        None => {
            let t: u32 = kani::any();
            // larger counters take the same path (the counter is only compared and decremented);
            // an unbounded one makes CBMC encode a multi-gigabyte slice copy on the dead branch
            kani::assume(t >= 1 && t as u64 <= avail as u64 + 3);
            t
        }
    };
    conn.body_bytes_to_be_read = todo;
    hk::set_cl(&mut conn.pending_request.as_mut().unwrap().headers, todo.wrapping_add(have as u32));
    kani::assume(todo <= u32::MAX - have as u32);
    let w = conn.buffer;
    // byte contents are compared for concrete window offsets only: a copy out of the window at
    // a symbolic offset followed by drain/collect exhausts CBMC (>16 GB); extents, cursors and
    // state are checked for every offset
    let check_bytes = start_c.is_some();
    let start: usize = match start_c {
        Some(s) => s,
        None => kani::any(),
    };
    kani::assume(start <= B - avail);
    let end = start + avail;
    let mut old = [0u8; 4];
    let mut i = 0;
    while i < have {
        old[i] = conn.body_vec[i];
        i += 1;
    }
    let cl = conn.pending_request.as_ref().unwrap().headers.content_length();
    let mut s = start;
    let r = conn.parse_body(&mut s, end);
    let j: usize = kani::any();
    if todo as u64 > avail as u64 {
        assert!(matches!(r, Ok(false)), "[C01,C02] incomplete body not awaited");
        assert!(conn.body_vec.len() == have + avail, "[C01,C02] accumulated body length");
        if check_bytes {
            kani::assume(j < have + avail);
            let want = if j < have { old[j] } else { w[start + (j - have)] };
            assert!(conn.body_vec[j] == want, "[C01,C02] accumulated body bytes");
        }
        assert!(conn.body_bytes_to_be_read == todo - avail as u32);
        assert!(conn.read_cursor == 0, "[C01] read cursor not reset after consuming body bytes");
        assert!(state_code(&conn) == 2);
    } else {
        assert!(matches!(r, Ok(true)), "[C02] complete body not delivered");
        let t = todo as usize;
        assert!(s == start + t, "[C01] body/next-request boundary");
        assert!(state_code(&conn) == 3);
        assert!(conn.body_vec.is_empty() && conn.body_bytes_to_be_read == 0);
        let p = conn.pending_request.as_ref().unwrap();
        let body = p.body.as_ref().unwrap();
        assert!(body.len() == have + t && body.len() == cl as usize, "[C01,C02,C04] delivered body length differs from Content-Length");
        if check_bytes {
            kani::assume(j < have + t);
            let want = if j < have { old[j] } else { w[start + (j - have)] };
            assert!(body.raw()[j] == want, "[C01,C02] delivered body bytes");
        }
    }
    assert!(conn.parsed_requests.is_empty() && conn.response_queue.is_empty(), "[C13] queue changed while reading a body");
    kani::cover!(todo_c.is_some() || todo as u64 > avail as u64, "incomplete body");
    kani::cover!(todo_c.is_some() || avail == 0 || todo as u64 <= avail as u64, "complete body");
    std::mem::forget(r);
    std::mem::forget(conn);
}

// @harness props=C01,C02,C04 props_thorough=C03,C13 tiers=quick:B=8,K=0|B=8,K=1|B=8,K=3|B=8,K=8;thorough:B=16,K=0|B=16,K=1|B=16,K=2|B=16,K=5|B=16,K=8|B=16,K=15|B=16,K=16 unwind=B+5 cap=900 mem=2 covers=2
// @fn HttpConnection::parse_body
// @claim F-contract(body), extents: takes exactly min(counter, end-start) bytes; incomplete => length accumulated, counter reduced, window cleared, read_cursor 0; complete => start'=start+counter, body length == Content-Length, state RequestReady; queues untouched
// @bounds window B bytes; K = end-start concrete per query, start arbitrary; counter arbitrary in 1..=K+3 (larger counters take the same path); no bytes accumulated before; byte contents are checked by fc_body_bytes
#[kani::proof]
fn fc_body_0() {
    set_surrogates(true);
    fc_body_case(0, crate::verif_params::K, None, None);
}

// @harness props=C01,C02 props_thorough=C03,C04 tiers=quick:B=8,K=2|B=8,K=8;thorough:B=16,K=0|B=16,K=3|B=16,K=16 unwind=B+5 cap=900 mem=2 covers=2
// @fn HttpConnection::parse_body
// @claim as fc_body_0 with 2 symbolic bytes already accumulated by earlier reads
// @bounds as fc_body_0; 2 bytes accumulated before
#[kani::proof]
fn fc_body_2() {
    set_surrogates(true);
    fc_body_case(2, crate::verif_params::K, None, None);
}

// @harness props=C01,C02 props_thorough=C03 tiers=quick:B=8,M=0|B=8,M=1|B=8,M=2|B=8,M=3;thorough:B=16,M=0|B=16,M=1|B=16,M=2|B=16,M=3|B=16,M=4|B=16,M=5 unwind=B+5 cap=900 mem=2 covers=2
// @fn HttpConnection::parse_body
// @claim F-contract(body), contents: the accumulated / delivered body consists of exactly the window bytes [start, start+min(counter,avail)) after the bytes accumulated before, in order
// @bounds concrete (already accumulated, avail, start, counter) tuples, one per query M: (0,3,1,2) (0,3,1,5) (2,B,0,B) (2,B-1,1,B+1) (0,1,B-1,1) (2,2,B-2,1); window contents and accumulated bytes symbolic
#[kani::proof]
fn fc_body_bytes() {
    set_surrogates(true);
    match crate::verif_params::M {
        0 => fc_body_case(0, 3, Some(2), Some(1)),
        1 => fc_body_case(0, 3, Some(5), Some(1)),
        2 => fc_body_case(2, B, Some(B as u32), Some(0)),
        3 => fc_body_case(2, B - 1, Some(B as u32 + 1), Some(1)),
        4 => fc_body_case(0, 1, Some(1), Some(B - 1)),
        _ => fc_body_case(2, 2, Some(1), Some(B - 2)),
    }
}

// ---------------------------------------------------------------------------------------------
// F-read: read_bytes / recv_with_fds (also C12: descriptors)
// ---------------------------------------------------------------------------------------------
fn raw_fd_of(f: &File) -> RawFd {
    f.as_raw_fd()
}

// @harness props=C01,C12 props_thorough=C03 tiers=quick:B=8;thorough:B=8|B=12,MEM=16 unwind=B+2 cap=1500 mem=10 covers=4
// @fn HttpConnection::read_bytes HttpConnection::recv_with_fds
// @claim F-read: exactly one receive, on buffer[read_cursor..]; chunk stored at [rc, rc+n), [0,rc) untouched, returns rc+n; 0 bytes => ConnectionClosed, stream error => StreamReadError, both leaving the parser state as it was; received descriptors are each wrapped once and appended in arrival order after the ones already held (also on the 0-byte read)
// @bounds window B; read_cursor arbitrary < B; chunk arbitrary, length 0..=B (truncated to the iovec by the kernel contract); 0..=3 received descriptors with arbitrary numbers 0..10^5 (0 included), 1 descriptor already held
#[kani::proof]
fn f_read() {
    set_surrogates(true);
    let mut conn = mk_conn(Shape::RL, 0);
    let w = conn.buffer;
    let rc = conn.read_cursor;
    let held: RawFd = any_fd();
    conn.files.push(unsafe { File::from_raw_fd(held) });
    let chunk: [u8; B] = kani::any();
    let n: usize = kani::any();
    kani::assume(n <= B);
    conn.stream.feed(chunk, n);
    let fds: [RawFd; MAXFD] = [any_fd(), any_fd(), any_fd()];
    let nfds: usize = kani::any();
    kani::assume(nfds <= MAXFD);
    conn.stream.fds.set(fds);
    conn.stream.nfds.set(nfds);
    let errno: i32 = if kani::any() { 0 } else { 11 };
    conn.stream.recv_errno.set(errno);
    let r = conn.read_bytes();
    assert!(conn.stream.recv_calls.get() == 1, "[C03] not exactly one receive per read");
    assert!(conn.stream.last_iov_len.get() == B - rc, "[C01,C03] receive window is not buffer[read_cursor..]");
    let got = std::cmp::min(n, B - rc);
    let j: usize = kani::any();
    kani::assume(j < B);
    if errno != 0 {
        assert!(matches!(r, Err(ConnectionError::StreamReadError(_))));
        assert!(conn.buffer[j] == w[j] && conn.read_cursor == rc, "[C01] an empty read changed buffered input");
        assert!(conn.files.len() == 1);
        kani::cover!(true, "EAGAIN");
    } else {
        assert!(conn.files.len() == 1 + nfds, "[C12] received descriptors lost or duplicated");
        assert!(raw_fd_of(&conn.files[0]) == held, "[C12] held descriptor displaced");
        let k: usize = kani::any();
        kani::assume(k < nfds);
        assert!(raw_fd_of(&conn.files[1 + k]) == fds[k], "[C12] descriptors not appended in arrival order");
        if got == 0 {
            assert!(matches!(r, Err(ConnectionError::ConnectionClosed)));
            kani::cover!(nfds == 3, "EOF read carrying descriptors");
        } else {
            assert!(matches!(r, Ok(e) if e == rc + got), "[C01] end cursor");
            if j < rc {
                assert!(conn.buffer[j] == w[j], "[C01] carried bytes overwritten by the read");
            } else if j < rc + got {
                assert!(conn.buffer[j] == chunk[j - rc], "[C01] received bytes stored at the wrong place");
            }
            assert!(conn.read_cursor == rc);
            kani::cover!(rc > 0 && got > 1 && nfds == 2, "append after carried bytes");
            kani::cover!(rc + got == B, "window filled");
        }
    }
    assert!(state_code(&conn) == 0 && conn.pending_request.is_none());
    std::mem::forget(r);
    std::mem::forget(conn);
}

// ---------------------------------------------------------------------------------------------
// C06: try_write
// ---------------------------------------------------------------------------------------------
use crate::verif_params::N as STEPS;

/// When set, try_write serializes a response into a 6-byte stand-in (status digits, version,
/// two markers) instead of calling Response::write_all: the real serialization into a growing
/// Vec costs CBMC minutes per response and is the subject of C05, not of C06.  With the flag
/// off the hook *is* `Response::write_all(out)` on the same arguments (by inspection of the
/// overlay substitution); a harness comparing both through the solver ran out of memory.
pub(crate) static mut MODEL_SER: bool = false;

pub(crate) fn serialize_hook(r: &Response, out: &mut Vec<u8>) -> Result<(), std::io::Error> {
    if !unsafe { MODEL_SER } {
        return r.write_all(out);
    }
    let raw = r.status().raw();
    out.push(raw[0]);
    out.push(raw[1]);
    out.push(raw[2]);
    out.push(match r.http_version() {
        Version::Http10 => b'0',
        Version::Http11 => b'1',
    });
    out.push(0xAA);
    out.push(0x55);
    Ok(())
}

const RESP_STATUS: [StatusCode; 6] = [
    StatusCode::OK,
    StatusCode::NotFound,
    StatusCode::BadRequest,
    StatusCode::Unauthorized,
    StatusCode::NotImplemented,
    StatusCode::ServiceUnavailable,
];

fn mk_resp(id: usize, v: Version) -> Response {
    Response::new(v, RESP_STATUS[id % 6])
}

const SER_LEN: usize = 6;

fn ser_byte(id: usize, v: Version, j: usize) -> u8 {
    let raw = RESP_STATUS[id % 6].raw();
    match j {
        0 => raw[0],
        1 => raw[1],
        2 => raw[2],
        3 => match v {
            Version::Http10 => b'0',
            Version::Http11 => b'1',
        },
        4 => 0xAA,
        _ => 0x55,
    }
}

// @harness props=C06,C03,C09 tiers=quick:N=5,M=1554|N=5,M=1596|N=5,M=1548|N=5,M=1668|N=5,M=1488,MEM=7|N=5,M=1332|N=5,M=1549|N=5,M=1584,MEM=10|N=5,M=1692;thorough:N=5,M=1692|N=5,M=1554|N=5,M=1596|N=5,M=1548|N=5,M=1668|N=5,M=1488,MEM=7|N=5,M=1332|N=5,M=1549|N=5,M=1362|N=5,M=1572|N=5,M=1584,MEM=10|N=5,M=1416|N=5,M=1764|N=5,M=1524|N=5,M=1512|N=5,M=222|N=5,M=3108|N=5,M=1530|N=5,M=1344|N=5,M=1680|N=5,M=2232|N=5,M=1553|N=6,M=9108|N=6,M=10560 unwind=N+4 cap=1500 mem=3 covers=1
// @fn HttpConnection::try_write HttpConnection::enqueue_response HttpConnection::clear_write_buffer HttpConnection::pending_write
// @claim history invariant, checked at every step of a sequence of N operations from a fresh connection (operation i is digit i of M in base 6: 0 enqueue_response, 1 try_write accepted completely, 2 try_write accepted partly (any 0 < k < remaining), 3 try_write answered Ok(0), 4 interrupted, 5 failing with EAGAIN or EPIPE): every write call passes the stream exactly the not-yet-accepted suffix of the oldest unsent response (length and an arbitrary byte), exactly one stream write per try_write, none when nothing is pending (InvalidWrite); Ok(k<len) keeps the rest, Ok(len) moves to the next response, EINTR changes nothing, Ok(0)/EAGAIN/EPIPE discard everything and report ConnectionClosed; pending_write() <=> something unsent
// @bounds N operations with the operation kinds fixed per query (a symbolic kind makes the io::Error drop glue symbolic, which CBMC unwinds recursively) and k, the watched byte and the HTTP version symbolic; responses are identified by distinct status codes and serialized by a 6-byte stand-in instead of Response::write_all (the stand-in is selected by a flag in the dispatch hook; with the flag off the hook calls write_all on the same arguments)
#[kani::proof]
fn c06_history() {
    unsafe { MODEL_SER = true };
    let v = any_version();
    let mut conn = HttpConnection::new(Mock::new());
    let watch: usize = kani::any();
    kani::assume(watch < SER_LEN);
    conn.stream.watchw = watch;
    // model: ids of the unsent responses in order, offset already accepted of the oldest
    let mut q = [0usize; 8];
    let mut qh = 0usize;
    let mut qt = 0usize;
    let mut off = 0usize;
    let mut next_id = 0usize;
    let mut step = 0;
    let mut plan = crate::verif_params::M;
    while step < STEPS {
        let op = plan % 6;
        plan /= 6;
        if op == 0 {
            conn.enqueue_response(mk_resp(next_id, v));
            q[qt] = next_id;
            qt += 1;
            next_id += 1;
        } else {
            let rest_now = SER_LEN - off;
            let ans: isize = match op {
                // "everything accepted": a concrete large count, so that the drain branch of try_write
                // is not encoded with a symbolic range on this step
                1 => 1000,
                2 => {
                    let k: isize = kani::any();
                    kani::assume(k >= 1 && k < rest_now as isize);
                    k
                }
                3 => 0,
                4 => -1,
                _ => {
                    if kani::any() {
                        -2
                    } else {
                        -3
                    }
                }
            };
            conn.stream.write_answer = ans;
            conn.stream.eintr_budget = 1;
            let calls0 = conn.stream.write_calls;
            let r = conn.try_write();
            if qh == qt {
                assert!(matches!(r, Err(ConnectionError::InvalidWrite)), "[C06] write with nothing pending must report InvalidWrite");
                assert!(conn.stream.write_calls == calls0, "[C06,C03] stream touched although nothing was pending");
            } else {
                assert!(conn.stream.write_calls == calls0 + 1, "[C06,C03] not exactly one stream write per try_write");
                let rest = SER_LEN - off;
                assert!(conn.stream.last_write_len == rest, "[C06] bytes offered to the stream are not the unsent suffix of the oldest response (length)");
                if watch < rest {
                    assert!(conn.stream.last_write_watch == ser_byte(q[qh], v, off + watch), "[C06] bytes offered to the stream are not the unsent suffix of the oldest response (content)");
                }
                if ans == -1 {
                    assert!(r.is_ok(), "[C06] an interrupted write must be tolerated");
                } else if ans == 0 || ans < -1 {
                    assert!(matches!(r, Err(ConnectionError::ConnectionClosed)), "[C06] failed write must report ConnectionClosed");
                    qh = qt;
                    off = 0;
                } else {
                    assert!(r.is_ok());
                    let k = std::cmp::min(ans as usize, rest);
                    if k == rest {
                        qh += 1;
                        off = 0;
                    } else {
                        off += k;
                    }
                }
            }
            std::mem::forget(r);
        }
        assert!(conn.pending_write() == (qh != qt), "[C06] pending_write() disagrees with the unsent output");
        step += 1;
    }
    kani::cover!(true, "end of the operation sequence reachable");
    std::mem::forget(conn);
}

// ---------------------------------------------------------------------------------------------
// Contract models of try_read / try_write for the server-level harnesses (DESIGN.md 4.6).  The
// overlay routes ClientConnection's calls through these hooks; with MODEL_IO off they are the
// real functions.  The models are nondeterministic over every outcome class the real functions
// have (established by the framing and C06 harnesses above): the server code cannot observe
// anything else of them.
// ---------------------------------------------------------------------------------------------
pub(crate) static mut MODEL_IO: bool = false;
/// outcome class of the next modelled try_read / try_write per descriptor: fixed per query, so
/// that the Result discriminant (and with it the io::Error drop glue) stays concrete for CBMC
pub(crate) static mut READ_PLAN: [u8; crate::verif_mock::NFD] = [0; crate::verif_mock::NFD];
pub(crate) static mut WRITE_PLAN: [u8; crate::verif_mock::NFD] = [0; crate::verif_mock::NFD];
/// what the read model did, per descriptor: (outcome, requests pushed)
pub(crate) static mut READ_LOG: [(u8, u8); crate::verif_mock::NFD] = [(0, 0); crate::verif_mock::NFD];

fn tiny_request() -> Request {
    Request {
        request_line: rk::mk_request_line(Method::Get, Version::Http11),
        headers: Headers::default(),
        body: None,
        files: Vec::new(),
    }
}

pub(crate) fn try_read_hook<T: Read + Write + ScmSocket>(c: &mut HttpConnection<T>) -> Result<(), ConnectionError> {
    if !unsafe { MODEL_IO } {
        return c.try_read();
    }
    let fd = c.stream.socket_fd() as usize;
    crate::verif_mock::world().reads[fd] += 1;
    // outcome classes (concrete per query): 0 nothing complete; 1 / 2 that many complete
    // requests; 3 headers of an Expect request complete (100-continue queued); 4 parse error;
    // 5 end of stream; 13 / 14 = 3 / 4 preceded by one complete request in the same read; 15 = 4 preceded by two
    let plan: u8 = unsafe { READ_PLAN[fd] };
    let (outcome, before): (u8, u8) = if plan == 15 {
        (4, 2)
    } else if plan >= 13 {
        (plan - 10, 1)
    } else {
        (plan, 0)
    };
    let mut pushed = 0u8;
    let mut k = 0;
    let n_req = if outcome == 1 || outcome == 2 { outcome } else { before };
    while k < n_req {
        c.parsed_requests.push_back(tiny_request());
        pushed += 1;
        k += 1;
    }
    let r = match outcome {
        0 | 1 | 2 => Ok(()),
        3 => {
            c.response_queue.push_back(Response::new(Version::Http11, StatusCode::Continue));
            Ok(())
        }
        4 => Err(ConnectionError::ParseError(RequestError::InvalidRequest)),
        _ => Err(ConnectionError::ConnectionClosed),
    };
    unsafe { READ_LOG[fd] = (outcome, pushed) };
    r
}

pub(crate) fn try_write_hook<T: Read + Write + ScmSocket>(c: &mut HttpConnection<T>) -> Result<(), ConnectionError> {
    if !unsafe { MODEL_IO } {
        return c.try_write();
    }
    let fd = c.stream.socket_fd() as usize;
    crate::verif_mock::world().writes[fd] += 1;
    if c.response_buffer.is_none() {
        match c.response_queue.pop_front() {
            Some(r) => {
                std::mem::forget(r);
                c.response_buffer = Some(vec![0u8]);
            }
            None => return Err(ConnectionError::InvalidWrite),
        }
    }
    // the planned answer applies to the first write on this descriptor in a step; any further
    // write is accepted completely (so that a retry loop terminates and can be observed)
    let ans: u8 = if crate::verif_mock::world().writes[fd] == 1 { unsafe { WRITE_PLAN[fd] } } else { 0 };
    match ans {
        // everything accepted
        0 => {
            let b = c.response_buffer.take();
            std::mem::forget(b);
            Ok(())
        }
        // short write / interrupted: the rest stays buffered
        1 | 2 => Ok(()),
        // zero bytes or a hard error: everything discarded
        _ => {
            c.clear_write_buffer();
            Err(ConnectionError::ConnectionClosed)
        }
    }
}

pub(crate) fn set_pending<T>(c: &mut HttpConnection<T>, queued: usize, buffered: bool) {
    let mut k = 0;
    while k < queued {
        c.response_queue.push_back(Response::new(Version::Http11, StatusCode::OK));
        k += 1;
    }
    if buffered {
        c.response_buffer = Some(vec![0u8]);
    }
}

pub(crate) fn limit_of<T>(c: &HttpConnection<T>) -> usize {
    c.payload_max_size
}

pub(crate) fn queue_len<T>(c: &HttpConnection<T>) -> usize {
    c.response_queue.len()
}

pub(crate) fn parsed_len<T>(c: &HttpConnection<T>) -> usize {
    c.parsed_requests.len()
}

pub(crate) fn queued_status<T>(c: &HttpConnection<T>, i: usize) -> Option<StatusCode> {
    c.response_queue.get(i).map(|r| r.status())
}

pub(crate) fn last_queued_status<T>(c: &HttpConnection<T>) -> Option<StatusCode> {
    c.response_queue.back().map(|r| r.status())
}

// ---------------------------------------------------------------------------------------------
// F-single: whole try_read (read + dispatch loop + RequestReady arm + error reset) on reads whose
// *structure* is fixed per query M and whose data is symbolic.
// ---------------------------------------------------------------------------------------------
/// descriptors "closed" by the code under test (see the overlay): count and last number
pub(crate) static mut CLOSED_FILES: usize = 0;

pub(crate) fn close_files_hook(files: &mut Vec<File>) {
    while let Some(f) = files.pop() {
        unsafe { CLOSED_FILES += 1 };
        std::mem::forget(f);
    }
}

pub(crate) fn is_fresh<T>(c: &HttpConnection<T>) -> bool {
    state_code(c) == 0
        && c.pending_request.is_none()
        && c.read_cursor == 0
        && c.body_vec.is_empty()
        && c.body_bytes_to_be_read == 0
        && c.files.is_empty()
}

pub(crate) fn any_fd() -> RawFd {
    let fd: RawFd = kani::any();
    kani::assume(fd >= 0 && fd < 100000);
    fd
}

/// Feeds `bytes` (structure concrete, some entries symbolic) plus `nfds` descriptors.
fn feed_slice(conn: &HttpConnection<Mock>, bytes: &[u8], fds: &[RawFd]) {
    let mut chunk = [0u8; B];
    let mut i = 0;
    while i < bytes.len() {
        chunk[i] = bytes[i];
        i += 1;
    }
    conn.stream.feed(chunk, bytes.len());
    let mut f = [0 as RawFd; MAXFD];
    let mut j = 0;
    while j < fds.len() {
        f[j] = fds[j];
        j += 1;
    }
    conn.stream.fds.set(f);
    conn.stream.nfds.set(fds.len());
}

// @harness props=C01,C11,C12,C03 tiers=quick:B=8,M=0|B=8,M=1|B=8,M=2|B=8,M=3|B=8,M=5|B=8,M=6,MEM=6|B=8,M=7|B=8,M=8;thorough:B=8,M=0|B=8,M=1|B=8,M=2|B=8,M=3|B=8,M=4,MEM=10|B=8,M=5|B=8,M=6,MEM=6|B=8,M=7|B=8,M=8|B=16,M=0|B=16,M=1|B=16,M=2|B=16,M=6,MEM=14|B=16,M=7 unwind=B+4 cap=2400 mem=2 covers=1 unwindset=dispatch:9,dispatch_old:9
// @fn HttpConnection::try_read HttpConnection::read_and_parse HttpConnection::reset_parser HttpConnection::read_bytes HttpConnection::recv_with_fds HttpConnection::parse_request_line HttpConnection::parse_headers HttpConnection::parse_body HttpConnection::shift_buffer_left
// @stubs std::string::String::from_utf8_lossy
// @claim whole try_read on structured reads: (C12) a read that completes a request hands it every descriptor held or received so far, in arrival order, and keeps none; a second request completed by the same read gets none; a read that completes nothing keeps them; (C01) after a completed request the parser continues at the next byte in the same call, a trailing partial line is carried; (C11) whenever try_read returns a ParseError the parser is exactly in the state of a new connection (state, pending request, carried bytes, partial body, counter, held descriptors), requests completed earlier in the same read stay queued; exactly one receive per call
// @bounds read structure fixed per query M (0: blank line completing a body-less request + 1 fd; 1: same followed by a complete second request; 2: last 2 body bytes + 1 fd; 3: blank line of a request that declares a body: nothing completes, fds kept; 4: rejected request line after a carried prefix; 5: rejected header line; 6: complete request followed by a rejected line; 7: blank line + partial next line; 8: blank line of a request whose declared length exceeds the limit); first byte of each line concrete (it selects the surrogate's outcome), in cases 4 and 5 the whole line; other line/body data bytes, descriptor numbers, header values and the carried prefix symbolic; window B; content parsers surrogated
#[kani::proof]
#[kani::stub(std::string::String::from_utf8_lossy, hk::lossy_stub)]
fn tr_single() {
    set_surrogates(true);
    unsafe { CLOSED_FILES = 0 };
    const CASE: usize = crate::verif_params::M;
    let held = [any_fd(), any_fd()];
    let newfd = any_fd();
    let d: [u8; 4] = kani::any();
    // data bytes that must not look like structure
    kani::assume(d[0] != b'\r' && d[1] != b'\r' && d[2] != b'\r' && d[3] != b'\r');
    // bytes the surrogates branch on are concrete (a symbolic outcome makes the parser state
    // symbolic and the dispatch loop then explores every state in every iteration); the
    // remaining line / body bytes are symbolic
    let ok0 = 0x05u8; // accepted by the request-line surrogate: PUT, HTTP/1.0
    let mut conn = match CASE {
        0 | 1 | 3 | 5 | 7 | 8 => mk_conn(Shape::HD, 0),
        2 => mk_conn(Shape::BD, 1),
        _ => mk_conn(Shape::RL, 0),
    };
    conn.read_cursor = 0;
    // window: concrete except for the bytes the case sets (an arbitrary window makes the bytes
    // CBMC reads back after the receive symbolic, and with them the parser's control flow)
    conn.buffer = [0; B];
    conn.payload_max_size = 1000;
    // cases 4 and 5 (errors with input still buffered) run without descriptors: with three of
    // them pending at the error the solver needs > 16 GB; closing pending descriptors on reset is
    // decided by c11_reset
    let with_files = CASE != 4 && CASE != 5 && CASE != 8;
    if with_files {
        conn.files.push(unsafe { File::from_raw_fd(held[0]) });
        conn.files.push(unsafe { File::from_raw_fd(held[1]) });
    }
    let mut expect_err = false;
    let mut expect_reqs = 0usize;
    match CASE {
        0 => {
            hk::set_cl(&mut conn.pending_request.as_mut().unwrap().headers, 0);
            feed_slice(&conn, &[b'\r', b'\n'], &[newfd]);
            expect_reqs = 1;
        }
        1 => {
            hk::set_cl(&mut conn.pending_request.as_mut().unwrap().headers, 0);
            feed_slice(&conn, &[b'\r', b'\n', ok0, b'\r', b'\n', b'\r', b'\n'], &[newfd]);
            expect_reqs = 2;
        }
        2 => {
            conn.body_bytes_to_be_read = 2;
            hk::set_cl(&mut conn.pending_request.as_mut().unwrap().headers, 3);
            feed_slice(&conn, &[d[0], d[1]], &[newfd]);
            expect_reqs = 1;
        }
        3 => {
            hk::set_cl(&mut conn.pending_request.as_mut().unwrap().headers, 5);
            feed_slice(&conn, &[b'\r', b'\n'], &[newfd]);
        }
        4 => {
            // carried prefix of 2 bytes, the rest of the line arrives and the line is rejected
            conn.read_cursor = 2;
            // (all bytes of the line concrete: a symbolic byte inside a line that is scanned for
            // CRLF makes the cut point symbolic and the run does not finish)
            conn.buffer[0] = 0x80;
            conn.buffer[1] = b'x';
            feed_slice(&conn, &[b'y', b'\r', b'\n'], &[]);
            expect_err = true;
        }
        5 => {
            // header line whose surrogate outcome is a fatal error (first byte & 7 == 4)
            feed_slice(&conn, &[0x04, b'x', b'\r', b'\n'], &[]);
            expect_err = true;
        }
        6 => {
            feed_slice(&conn, &[ok0, b'\r', b'\n', b'\r', b'\n', 0x80, b'\r', b'\n'], &[]);
            expect_err = true;
            expect_reqs = 1;
        }
        8 => {
            // end of headers of a request that declares more than the limit
            hk::set_cl(&mut conn.pending_request.as_mut().unwrap().headers, 2000);
            feed_slice(&conn, &[b'\r', b'\n'], &[]);
            expect_err = true;
        }
        _ => {
            hk::set_cl(&mut conn.pending_request.as_mut().unwrap().headers, 0);
            feed_slice(&conn, &[b'\r', b'\n', ok0, d[1]], &[]);
            expect_reqs = 1;
        }
    }
    let r = conn.try_read();
    assert!(conn.stream.recv_calls.get() == 1, "[C03] not exactly one receive per try_read");
    assert!(conn.parsed_requests.len() == expect_reqs, "[C01,C02] number of requests completed by the read");
    if expect_err {
        assert!(matches!(r, Err(ConnectionError::ParseError(_))), "[C02] rejected line not reported");
        assert!(is_fresh(&conn), "[C11] parser state after a parse error differs from a new connection");
        assert!(unsafe { CLOSED_FILES } == 0 || with_files, "[C11,C12] descriptor bookkeeping");
    } else {
        assert!(r.is_ok(), "[C01,C02] well-formed read rejected");
    }
    match CASE {
        0 | 1 | 2 => {
            let f = &conn.parsed_requests[0].files;
            assert!(f.len() == 3, "[C12] completing request did not receive every pending descriptor");
            assert!(f[0].as_raw_fd() == held[0] && f[1].as_raw_fd() == held[1] && f[2].as_raw_fd() == newfd, "[C12] descriptors delivered out of arrival order");
            assert!(conn.files.is_empty(), "[C12] descriptor kept after delivery (would be delivered twice)");
            if CASE == 1 {
                assert!(conn.parsed_requests[1].files.is_empty(), "[C12] descriptor delivered twice");
            }
            if CASE == 2 {
                let body = conn.parsed_requests[0].body.as_ref().unwrap();
                assert!(body.len() == 3 && body.raw()[1] == d[0] && body.raw()[2] == d[1], "[C01,C02] body bytes");
            }
            assert!(state_code(&conn) == 0 && conn.pending_request.is_none() && conn.read_cursor == 0 && conn.body_bytes_to_be_read == 0, "[C01] parser not ready for the next request");
        }
        3 => {
            assert!(conn.files.len() == 3 && conn.files[2].as_raw_fd() == newfd, "[C12] descriptors lost while no request completed");
            assert!(state_code(&conn) == 2 && conn.body_bytes_to_be_read == 5);
        }
        7 => {
            assert!(conn.parsed_requests[0].files.len() == 2);
            assert!(state_code(&conn) == 0 && conn.read_cursor == 2 && conn.buffer[0] == ok0 && conn.buffer[1] == d[1], "[C01] partial next line not carried");
        }
        _ => {}
    }
    kani::cover!(true, "end reached");
    std::mem::forget(r);
    std::mem::forget(conn);
}
