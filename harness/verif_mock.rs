// Stand-ins for the operating-system objects `server.rs` is written against: epoll, eventfd,
// UnixListener, UnixStream.  The overlay rewrites the `use` lines of server.rs (scratch copy
// only) to import these instead, so that `HttpServer` - its real body - can be executed by
// Kani and, for replay, natively.  Each object only records what the server asks of it in ghost
// state (`static mut`, single-threaded harnesses) and answers with harness-chosen values.
#![allow(dead_code, static_mut_refs)]

use std::io::{Read, Write};
use std::os::unix::io::{AsRawFd, FromRawFd, RawFd};

pub const NFD: usize = 8;

/// Ghost view of the kernel state the server manipulates.
pub struct World {
    /// epoll interest per descriptor number (index = fd): None = not registered.
    pub interest: [Option<u32>; NFD],
    /// user data registered with the descriptor
    pub data: [u64; NFD],
    /// descriptors currently open (owned by some mock object)
    pub open: [bool; NFD],
    /// failed epoll_ctl calls (ENOENT / EEXIST in the kernel)
    pub ctl_errors: usize,
    /// batch returned by the next epoll_wait
    pub batch: [(RawFd, u32); 4],
    pub batch_len: usize,
    /// capacity of the event buffer passed to the last epoll_wait
    pub wait_cap: usize,
    pub wait_calls: usize,
    /// clients waiting in the listener's accept queue
    pub backlog: usize,
    pub accepts: usize,
    /// next descriptor number handed out by accept()
    pub next_fd: RawFd,
    /// bytes written to streams *outside* the connection objects (the 503 path): per fd
    pub raw_written: [usize; NFD],
    pub raw_written_ok: [bool; NFD],
    pub closed: [usize; NFD],
    pub nonblocking: [bool; NFD],
    /// number of try_write / try_read calls per descriptor during the current step
    pub writes: [usize; NFD],
    pub reads: [usize; NFD],
}

pub static mut W: World = World::new();

impl World {
    pub const fn new() -> Self {
        World {
            interest: [None; NFD],
            data: [0; NFD],
            open: [false; NFD],
            ctl_errors: 0,
            batch: [(0, 0); 4],
            batch_len: 0,
            wait_cap: 0,
            wait_calls: 0,
            backlog: 0,
            accepts: 0,
            next_fd: 0,
            raw_written: [0; NFD],
            raw_written_ok: [true; NFD],
            closed: [0; NFD],
            nonblocking: [false; NFD],
            writes: [0; NFD],
            reads: [0; NFD],
        }
    }
}

pub fn world() -> &'static mut World {
    // SAFETY: harnesses are single-threaded.
    unsafe { &mut W }
}

fn idx(fd: RawFd) -> usize {
    assert!(fd >= 0 && (fd as usize) < NFD, "verif mock: descriptor out of the modelled range");
    fd as usize
}

pub mod epoll {
    use super::*;

    #[derive(Clone, Copy, PartialEq, Eq, Debug)]
    pub struct EventSet(pub u32);
    impl EventSet {
        pub const IN: EventSet = EventSet(0x001);
        pub const OUT: EventSet = EventSet(0x004);
        pub const ERROR: EventSet = EventSet(0x008);
        pub const HANG_UP: EventSet = EventSet(0x010);
        pub const READ_HANG_UP: EventSet = EventSet(0x2000);
        pub const PRIORITY: EventSet = EventSet(0x002);
        pub const EDGE_TRIGGERED: EventSet = EventSet(1 << 31);
        pub const ONE_SHOT: EventSet = EventSet(1 << 30);
        pub const WAKE_UP: EventSet = EventSet(1 << 29);
        pub const EXCLUSIVE: EventSet = EventSet(1 << 28);
        pub fn contains(&self, other: EventSet) -> bool {
            self.0 & other.0 == other.0
        }
        pub fn bits(&self) -> u32 {
            self.0
        }
        pub fn empty() -> Self {
            EventSet(0)
        }
    }
    impl std::ops::BitOr for EventSet {
        type Output = EventSet;
        fn bitor(self, rhs: EventSet) -> EventSet {
            EventSet(self.0 | rhs.0)
        }
    }

    #[derive(Clone, Copy, PartialEq, Eq, Debug)]
    pub enum ControlOperation {
        Add,
        Modify,
        Delete,
    }

    #[derive(Clone, Copy, Default, Debug)]
    pub struct EpollEvent {
        events: u32,
        data: u64,
    }
    impl EpollEvent {
        pub fn new(events: EventSet, data: u64) -> Self {
            EpollEvent { events: events.0, data }
        }
        pub fn events(&self) -> u32 {
            self.events
        }
        pub fn event_set(&self) -> EventSet {
            EventSet(self.events)
        }
        pub fn data(&self) -> u64 {
            self.data
        }
        pub fn fd(&self) -> RawFd {
            self.data as i32
        }
    }

    #[derive(Debug)]
    pub struct Epoll {
        pub fd: RawFd,
    }
    impl Epoll {
        pub fn new() -> std::io::Result<Self> {
            Ok(Epoll { fd: 0 })
        }
        /// epoll_ctl(2): ADD fails with EEXIST on a registered descriptor, MOD/DEL with ENOENT
        /// on an unregistered one, everything fails with EBADF on a closed one.
        pub fn ctl(&self, op: ControlOperation, fd: RawFd, event: EpollEvent) -> std::io::Result<()> {
            let w = world();
            let i = idx(fd);
            let ok = w.open[i]
                && match op {
                    ControlOperation::Add => w.interest[i].is_none(),
                    ControlOperation::Modify | ControlOperation::Delete => w.interest[i].is_some(),
                };
            if !ok {
                w.ctl_errors += 1;
                return Err(std::io::Error::from(std::io::ErrorKind::NotFound));
            }
            match op {
                ControlOperation::Add | ControlOperation::Modify => {
                    w.interest[i] = Some(event.events);
                    w.data[i] = event.data;
                }
                ControlOperation::Delete => w.interest[i] = None,
            }
            Ok(())
        }
        /// epoll_wait(2): hands out the batch the harness prepared, at most `events.len()`.
        pub fn wait(&self, _timeout: i32, events: &mut [EpollEvent]) -> std::io::Result<usize> {
            let w = world();
            w.wait_calls += 1;
            w.wait_cap = events.len();
            let n = if w.batch_len < events.len() { w.batch_len } else { events.len() };
            let mut k = 0;
            while k < n {
                let (fd, bits) = w.batch[k];
                events[k] = EpollEvent { events: bits, data: w.data[idx(fd)] };
                k += 1;
            }
            Ok(n)
        }
    }
    impl AsRawFd for Epoll {
        fn as_raw_fd(&self) -> RawFd {
            self.fd
        }
    }
}

#[derive(Debug)]
pub struct EventFd {
    pub fd: RawFd,
}
impl EventFd {
    pub fn new(_flags: i32) -> std::io::Result<Self> {
        Ok(EventFd { fd: 2 })
    }
    pub fn write(&self, _v: u64) -> std::io::Result<()> {
        Ok(())
    }
}
impl AsRawFd for EventFd {
    fn as_raw_fd(&self) -> RawFd {
        self.fd
    }
}

#[derive(Debug)]
pub struct UnixListener {
    pub fd: RawFd,
}
impl UnixListener {
    pub fn bind<P: AsRef<std::path::Path>>(_p: P) -> std::io::Result<Self> {
        Ok(UnixListener { fd: 1 })
    }
    pub fn accept(&self) -> std::io::Result<(UnixStream, ())> {
        let w = world();
        if w.backlog == 0 {
            return Err(std::io::Error::from(std::io::ErrorKind::WouldBlock));
        }
        w.backlog -= 1;
        w.accepts += 1;
        let fd = w.next_fd;
        let i = idx(fd);
        assert!(!w.open[i], "verif mock: accept() handed out a descriptor that is still open");
        w.open[i] = true;
        w.next_fd += 1;
        Ok((UnixStream { fd }, ()))
    }
}
impl AsRawFd for UnixListener {
    fn as_raw_fd(&self) -> RawFd {
        self.fd
    }
}
impl FromRawFd for UnixListener {
    unsafe fn from_raw_fd(fd: RawFd) -> Self {
        UnixListener { fd }
    }
}

/// A connected stream.  The connection state machine is exercised through contract models of
/// try_read / try_write in server-level harnesses, so Read/Write here only serve the one
/// direct write the server performs itself (the 503 message).
#[derive(Debug)]
pub struct UnixStream {
    pub fd: RawFd,
}
impl UnixStream {
    pub fn set_nonblocking(&self, nb: bool) -> std::io::Result<()> {
        world().nonblocking[idx(self.fd)] = nb;
        Ok(())
    }
}
impl AsRawFd for UnixStream {
    fn as_raw_fd(&self) -> RawFd {
        self.fd
    }
}
impl Read for UnixStream {
    fn read(&mut self, _buf: &mut [u8]) -> std::io::Result<usize> {
        panic!("verif mock: unexpected Read::read on a stream");
    }
}
impl Write for UnixStream {
    fn write(&mut self, buf: &[u8]) -> std::io::Result<usize> {
        let w = world();
        let i = idx(self.fd);
        // compare with the documented 503 message, byte by byte, as it streams by
        let want = crate::server::verif_kani::full_message();
        let mut k = 0;
        while k < buf.len() {
            let pos = w.raw_written[i] + k;
            if pos >= want.len() || want[pos] != buf[k] {
                w.raw_written_ok[i] = false;
            }
            k += 1;
        }
        w.raw_written[i] += buf.len();
        Ok(buf.len())
    }
    fn flush(&mut self) -> std::io::Result<()> {
        Ok(())
    }
}
impl vmm_sys_util::sock_ctrl_msg::ScmSocket for UnixStream {
    fn socket_fd(&self) -> RawFd {
        self.fd
    }
}
impl Drop for UnixStream {
    fn drop(&mut self) {
        let w = world();
        let i = idx(self.fd);
        w.closed[i] += 1;
        w.open[i] = false;
        // the kernel removes a closed descriptor from every epoll set
        w.interest[i] = None;
    }
}
