// Overlay child module of `connection.rs` (compiled only under cfg(kani)); see DESIGN.md.
#![allow(dead_code, unused_imports, static_mut_refs)]
use super::*;
use crate::common::{Method, Version};
use crate::headers::verif_kani as hk;
use crate::request::verif_kani as rk;
use std::cell::Cell;
use std::os::unix::io::{AsRawFd, RawFd};

pub(crate) const B: usize = BUFFER_SIZE;

// ---------------------------------------------------------------------------------------------
// Mock stream: every answer of the stream is a harness-controlled (symbolic) value.
// ---------------------------------------------------------------------------------------------
pub(crate) const MAXFD: usize = 3;

pub(crate) struct Mock {
    /// bytes the next `recv` delivers (first `chunk_len` of `chunk`, truncated to the iovec).
    pub chunk: Cell<[u8; B]>,
    pub chunk_len: Cell<usize>,
    /// if set, `recv` fails with this errno instead.
    pub recv_errno: Cell<i32>,
    pub fds: Cell<[RawFd; MAXFD]>,
    pub nfds: Cell<usize>,
    pub recv_calls: Cell<usize>,
    /// iovec seen by the last recv.
    pub last_iov_len: Cell<usize>,
    // write side
    pub write_calls: usize,
    /// what `write` answers: >=0 => Ok(min(k, len)); -1 Interrupted; -2 WouldBlock; -3 BrokenPipe
    pub write_answer: isize,
    pub last_write_len: usize,
    /// byte of the last written buffer at WATCHW (if in range)
    pub last_write_watch: u8,
    pub watchw: usize,
}

impl Mock {
    pub fn new() -> Self {
        Mock {
            chunk: Cell::new([0; B]),
            chunk_len: Cell::new(0),
            recv_errno: Cell::new(0),
            fds: Cell::new([0; MAXFD]),
            nfds: Cell::new(0),
            recv_calls: Cell::new(0),
            last_iov_len: Cell::new(0),
            write_calls: 0,
            write_answer: 0,
            last_write_len: 0,
            last_write_watch: 0,
            watchw: 0,
        }
    }
    pub fn feed(&self, chunk: [u8; B], len: usize) {
        self.chunk.set(chunk);
        self.chunk_len.set(len);
    }
}

impl Read for Mock {
    fn read(&mut self, _buf: &mut [u8]) -> std::io::Result<usize> {
        // HttpConnection never calls `read`; it receives through `recv_with_fds`.
        panic!("verif: unexpected Read::read");
    }
}

impl Write for Mock {
    fn write(&mut self, buf: &[u8]) -> std::io::Result<usize> {
        self.write_calls += 1;
        self.last_write_len = buf.len();
        self.last_write_watch = if self.watchw < buf.len() {
            buf[self.watchw]
        } else {
            0
        };
        match self.write_answer {
            -1 => Err(std::io::Error::from(std::io::ErrorKind::Interrupted)),
            -2 => Err(std::io::Error::from(std::io::ErrorKind::WouldBlock)),
            -3 => Err(std::io::Error::from(std::io::ErrorKind::BrokenPipe)),
            k => Ok(std::cmp::min(k as usize, buf.len())),
        }
    }
    fn flush(&mut self) -> std::io::Result<()> {
        Ok(())
    }
}

impl ScmSocket for Mock {
    fn socket_fd(&self) -> RawFd {
        -1
    }
    unsafe fn recv_with_fds(
        &self,
        iovecs: &mut [libc::iovec],
        fds: &mut [RawFd],
    ) -> vmm_sys_util::errno::Result<(usize, usize)> {
        self.recv_calls.set(self.recv_calls.get() + 1);
        let iov = iovecs[0];
        self.last_iov_len.set(iov.iov_len);
        if self.recv_errno.get() != 0 {
            return Err(vmm_sys_util::errno::Error::new(self.recv_errno.get()));
        }
        // Kernel contract: never more than the iovec holds.
        let n = std::cmp::min(self.chunk_len.get(), iov.iov_len);
        let chunk = self.chunk.get();
        let dst = iov.iov_base as *mut u8;
        let mut i = 0;
        while i < n {
            *dst.add(i) = chunk[i];
            i += 1;
        }
        let k = std::cmp::min(self.nfds.get(), fds.len());
        let src = self.fds.get();
        let mut j = 0;
        while j < k {
            fds[j] = src[j];
            j += 1;
        }
        Ok((n, k))
    }
}

fn set_surrogates(on: bool) {
    // SAFETY: single-threaded harness.
    unsafe {
        rk::SUR_RL = on;
        hk::SUR_HL = on;
        rk::LOG_N = 0;
    }
}


// ---------------------------------------------------------------------------------------------
// Pre-state builders: concrete shape, symbolic contents (DESIGN.md §2.2).
// ---------------------------------------------------------------------------------------------
#[derive(Clone, Copy, PartialEq)]
pub(crate) enum Shape {
    RL,
    HD,
    BD,
}

pub(crate) fn any_method() -> Method {
    match kani::any::<u8>() & 3 {
        0 => Method::Get,
        1 => Method::Put,
        _ => Method::Patch,
    }
}
pub(crate) fn any_version() -> Version {
    if kani::any() {
        Version::Http10
    } else {
        Version::Http11
    }
}

pub(crate) fn any_pending(content_length: u32, with_body: bool) -> Request {
    let mut headers = Headers::default();
    hk::set_fields(&mut headers, content_length, kani::any(), kani::any());
    Request {
        request_line: rk::mk_request_line(any_method(), any_version()),
        headers,
        body: if with_body {
            Some(Body::new(vec![]))
        } else {
            None
        },
        files: Vec::new(),
    }
}

/// A connection in an arbitrary state of the given shape satisfying the invariant `Inv`
/// except for the buffer contents / read_cursor, which the caller constrains.
pub(crate) fn mk_conn(shape: Shape, body_have: usize) -> HttpConnection<Mock> {
    let mut conn = HttpConnection::new(Mock::new());
    conn.buffer = kani::any();
    conn.payload_max_size = kani::any();
    match shape {
        Shape::RL => {}
        Shape::HD => {
            conn.state = ConnectionState::WaitingForHeaders;
            conn.pending_request = Some(any_pending(kani::any(), false));
        }
        Shape::BD => {
            conn.state = ConnectionState::WaitingForBody;
            let todo: u32 = kani::any();
            kani::assume(todo >= 1);
            kani::assume(todo <= u32::MAX - body_have as u32);
            let mut i = 0;
            while i < body_have {
                conn.body_vec.push(kani::any());
                i += 1;
            }
            conn.body_bytes_to_be_read = todo;
            conn.pending_request = Some(any_pending(todo + body_have as u32, true));
        }
    }
    conn
}

fn state_code<T>(c: &HttpConnection<T>) -> u8 {
    match c.state {
        ConnectionState::WaitingForRequestLine => 0,
        ConnectionState::WaitingForHeaders => 1,
        ConnectionState::WaitingForBody => 2,
        ConnectionState::RequestReady => 3,
    }
}

/// Reference: index of the first CR LF pair in w[start..end), absolute.
fn ref_find_crlf(w: &[u8; B], start: usize, end: usize) -> Option<usize> {
    let mut i = start;
    while i + 1 < end {
        if w[i] == b'\r' && w[i + 1] == b'\n' {
            return Some(i);
        }
        i += 1;
    }
    None
}

fn is_parse_err<T>(r: &Result<T, ConnectionError>) -> bool {
    matches!(r, Err(ConnectionError::ParseError(_)))
}

// ---------------------------------------------------------------------------------------------
// F-contract: parse_request_line
// ---------------------------------------------------------------------------------------------
// @harness props=C01,C02,C03,C04,C11 tiers=quick:B=8;thorough:B=16 unwind=B+2 cap=1500 mem=8 covers=3
// @fn HttpConnection::parse_request_line request::find HttpConnection::shift_buffer_left
// @claim F-contract(request line): first CRLF at i => line parser called once on w[start..i), start'=i+2, state Headers, fresh pending request; no CRLF => InvalidRequest iff start==0 && end==B, else Ok(false), read_cursor=end-start and the bytes carried to offset 0; queues untouched
// @bounds window B bytes, arbitrary contents, arbitrary 0<=start<=end<=B; request-line content parser replaced by the surrogate
#[kani::proof]
fn fc_request_line() {
    set_surrogates(true);
    let mut conn = mk_conn(Shape::RL, 0);
    let w = conn.buffer;
    let start: usize = kani::any();
    let end: usize = kani::any();
    kani::assume(start <= end && end <= B);
    let watch: usize = kani::any();
    kani::assume(watch < B);
    unsafe { rk::WATCH = watch };
    let mut s = start;
    let r = conn.parse_request_line(&mut s, end);
    match ref_find_crlf(&w, start, end) {
        Some(i) => {
            // the surrogate was called exactly once, on w[start..i)
            let (kind, len, d) = unsafe { rk::LOG[0] };
            assert!(unsafe { rk::LOG_N } == 1 && kind == 1 && len == i - start);
            if watch < len {
                assert!(d == w[start + watch]);
            }
            let expect_err = len == 0 || w[start] & 0x80 != 0;
            if expect_err {
                assert!(is_parse_err(&r));
            } else {
                assert!(matches!(r, Ok(true)));
                assert!(s == i + 2);
                assert!(state_code(&conn) == 1);
                let p = conn.pending_request.as_ref().unwrap();
                assert!(p.body.is_none() && p.files.is_empty());
                assert!(p.headers.content_length() == 0 && !p.headers.expect());
                kani::cover!(true, "line found and accepted");
            }
        }
        None => {
            assert!(unsafe { rk::LOG_N } == 0);
            if start == 0 && end == B {
                assert!(matches!(
                    r,
                    Err(ConnectionError::ParseError(RequestError::InvalidRequest))
                ));
                kani::cover!(true, "line too long");
            } else {
                assert!(matches!(r, Ok(false)));
                assert!(conn.read_cursor == end - start);
                let j: usize = kani::any();
                kani::assume(j < end - start);
                assert!(conn.buffer[j] == w[start + j]);
                assert!(state_code(&conn) == 0 && conn.pending_request.is_none());
                kani::cover!(start > 0 && end > start, "carried with shift");
            }
        }
    }
    assert!(conn.parsed_requests.is_empty() && conn.response_queue.is_empty());
    std::mem::forget(conn);
}
