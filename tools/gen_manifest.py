#!/usr/bin/env python3
"""Regenerates /verif/MANIFEST.json from the table below (kept in one place so that the claims,
the not_applicable list and the commands stay consistent)."""
import json, os

VERIF = os.path.dirname(os.path.dirname(os.path.abspath(__file__)))

TECH = "bounded symbolic execution of the real Rust code with Kani 0.68 / CBMC 6.11 (CaDiCaL): kani::any() inputs, unwinding assertions on, cover! vacuity witnesses, native replay of counterexamples"

# property -> (claim text, level_note, design_ref)
CLAIMS = {
}

NOT_APPLICABLE = {
}


def main():
    claims = json.load(open(os.path.join(VERIF, "tools", "claims.json")))
    checks = []
    for pid in sorted(claims["claims"]):
        c = claims["claims"][pid]
        checks.append({
            "property_id": pid,
            "quick_cmd": "./check %s --tier quick" % pid,
            "thorough_cmd": "./check %s --tier thorough" % pid,
            "evidence_file": "/verif/evidence/%s.json" % pid,
            "replay_cmd_template": "./check %s --replay {path}" % pid,
            "engine": "kani-cbmc",
            "level_claimed": {"category": "other", "text": c["text"], "design_ref": c.get("design_ref", "DESIGN.md section 5")},
            "level_note": c["note"],
            "technique": TECH,
        })
    m = {
        "version": 1,
        "setup_cmd": "true",
        "hooks": {
            "guard": "kani",
            "enable": "none in /repo: every check copies /repo's working tree to a scratch directory and appends "
                      "#[cfg(kani)] child modules + constant substitutions there (DESIGN.md 2.1); cfg(kani) is set by cargo-kani only",
            "baseline_off_cmd": "cd /repo && cargo test --workspace --no-fail-fast --offline",
            "source_commits": [],
            "add_only": True,
        },
        "engines": [{
            "name": "kani-cbmc", "path": "/verif/check",
            "serves_properties": sorted(claims["claims"]),
            "kind_free_text": "Kani 0.68.0 proof harnesses (in /verif/harness, overlaid on a fresh copy of /repo) decided by CBMC 6.11.0 + CaDiCaL",
        }],
        "checks": checks,
        "not_applicable": [{"property_id": k, "reason": v} for k, v in sorted(claims["not_applicable"].items())],
        "notes": "Exit codes of ./check: 0 pass, 1 reproduced violation (VIOLATION line), 2 inconclusive. "
                 "Fixed defects and known findings are listed in /verif/known_findings.json.",
    }
    json.dump(m, open(os.path.join(VERIF, "MANIFEST.json"), "w"), indent=1)
    print("MANIFEST.json: %d checks, %d not applicable" % (len(checks), len(m["not_applicable"])))


if __name__ == "__main__":
    main()
