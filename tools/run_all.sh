#!/bin/bash
# run_all.sh [tier]: runs every registered check in sequence, prints exit codes
tier=${1:-quick}
cd /verif
for p in $(python3 -c "import json; print(' '.join(c['property_id'] for c in json.load(open('MANIFEST.json'))['checks']))"); do
  s=$(date +%s)
  ./check $p --tier $tier > /tmp/run_$p.$tier.out 2>&1
  rc=$?
  echo "$p rc=$rc $(( $(date +%s) - s ))s $(tail -1 /tmp/run_$p.$tier.out | cut -c1-150)"
done
