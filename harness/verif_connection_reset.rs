// Second overlay child module of `connection.rs`: harnesses that call `reset_parser`, the function
// introduced by the C11 repair.  The runner appends this module only if the function exists in
// the source under test, so that a tree without it still builds the other harnesses (which then
// report the defect through `tr_single`).
#![allow(dead_code, unused_imports, static_mut_refs)]
use super::verif_kani::*;
use super::*;

// @harness props=C11,C12,C02,C14 props_thorough=C03 tiers=quick:B=8,M=0|B=8,M=1|B=8,M=2;thorough:B=16,M=0|B=16,M=1|B=16,M=2 unwind=B+4 cap=900 mem=2 covers=1
// @fn HttpConnection::reset_parser
// @claim the reset that try_read performs after a parse error leaves exactly the state of a new connection from every parser state: state WaitingForRequestLine, no pending request, read cursor 0, no partial body, counter 0, no descriptor held (each held descriptor closed once); queued requests and responses untouched
// @bounds parser shape per query M (0 request line with an arbitrary carried prefix, 1 headers with an arbitrary pending request, 2 body with 2 accumulated bytes and an arbitrary counter); 2 descriptors held; window B
#[kani::proof]
fn c11_reset() {
    set_surrogates(true);
    unsafe { CLOSED_FILES = 0 };
    let mut conn = match crate::verif_params::M {
        0 => mk_conn(Shape::RL, 0),
        1 => mk_conn(Shape::HD, 0),
        _ => mk_conn(Shape::BD, 2),
    };
    conn.files.push(unsafe { File::from_raw_fd(any_fd()) });
    conn.files.push(unsafe { File::from_raw_fd(any_fd()) });
    conn.parsed_requests.push_back(any_pending(0, false));
    conn.reset_parser();
    assert!(is_fresh(&conn), "[C11] parser state after the reset differs from a new connection");
    assert!(unsafe { CLOSED_FILES } == 2, "[C11,C12] descriptors pending at a parse error must be closed, not kept");
    assert!(conn.parsed_requests.len() == 1 && conn.response_queue.is_empty(), "[C11] reset touched the queues");
    kani::cover!(true, "end reached");
    std::mem::forget(conn);
}
