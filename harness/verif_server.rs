// Overlay child module of `server.rs` (compiled only under cfg(kani)); see DESIGN.md 4.6.
#![allow(dead_code, unused_imports, static_mut_refs)]
use super::*;
use crate::connection::verif_kani as ck;
use crate::verif_mock::{world, World, NFD, W};

/// errno rendering for the 500 body (cut: see the overlay)
pub(crate) fn errno_string_hook(e: &vmm_sys_util::errno::Error) -> String {
    if unsafe { ck::MODEL_IO } {
        String::from("io error")
    } else {
        e.to_string()
    }
}

/// Stub for `format!` (the 400 body text is not the subject of any server-level obligation).
pub(crate) fn format_stub(_args: std::fmt::Arguments<'_>) -> String {
    String::from("formatted")
}

/// Element-wise equivalent of
/// `out.append(&mut v.into_iter().map(|r| ServerRequest::new(r, id)).collect())` (see the overlay).
pub(crate) fn move_requests(v: Vec<Request>, out: &mut Vec<ServerRequest>, id: u64) {
    for r in v {
        out.push(ServerRequest::new(r, id));
    }
}

pub(crate) fn full_message() -> &'static [u8] {
    // the documented refusal, written out independently of server.rs
    b"HTTP/1.1 503\r\nServer: Firecracker API\r\nConnection: close\r\nContent-Length: 40\r\n\r\n{ \"error\": \"Too many open connections\" }"
}

const EPOLL_FD: RawFd = 0;
const LISTEN_FD: RawFd = 1;
const KILL_FD: RawFd = 2;
const C0: RawFd = 3;
const C1: RawFd = 4;
const FIRST_FREE: RawFd = 5;

const IN_RD: u32 = 0x001 | 0x2000;
const OUT_RD: u32 = 0x004 | 0x2000;
const E_IN: u32 = 0x001;
const E_OUT: u32 = 0x004;
const E_ERR: u32 = 0x008;
const E_HUP: u32 = 0x010;
const E_RDHUP: u32 = 0x2000;

fn state_code(s: &ClientConnectionState) -> u8 {
    match s {
        ClientConnectionState::AwaitingIncoming => 0,
        ClientConnectionState::AwaitingOutgoing => 1,
        ClientConnectionState::Closed => 2,
    }
}

/// Per-connection view used by the invariant and the post-conditions.
#[derive(Clone, Copy)]
struct View {
    present: bool,
    state: u8,
    pending: bool,
    in_flight: u32,
    queued: usize,
}

fn view(srv: &HttpServer, fd: RawFd) -> View {
    match srv.connections.get(&fd) {
        None => View { present: false, state: 0, pending: false, in_flight: 0, queued: 0 },
        Some(c) => View {
            present: true,
            state: state_code(&c.state),
            pending: c.connection.pending_write(),
            in_flight: c.in_flight_response_count,
            queued: ck::queue_len(&c.connection),
        },
    }
}

/// Server invariant for one connection (DESIGN.md 4.6): key = descriptor, registered, interest
/// and pending output match the state.
fn sinv_conn(v: &View, fd: RawFd) -> bool {
    if !v.present {
        return true;
    }
    let w = world();
    let i = fd as usize;
    if !w.open[i] || w.data[i] != fd as u64 {
        return false;
    }
    match (v.state, w.interest[i]) {
        (0, Some(x)) => x == IN_RD && !v.pending,
        (1, Some(x)) => x == OUT_RD && v.pending,
        (2, Some(x)) => (x == IN_RD || x == OUT_RD) && !v.pending,
        _ => false,
    }
}

/// A server in an arbitrary state satisfying the invariant, with up to two connections.
fn mk_server(with_kill: bool) -> HttpServer {
    unsafe {
        W = World::new();
        ck::MODEL_IO = true;
        crate::response::verif_kani::MODEL_DEC = true;
        ck::READ_LOG = [(0, 0); NFD];
    }
    let w = world();
    w.open[EPOLL_FD as usize] = true;
    w.open[LISTEN_FD as usize] = true;
    w.open[KILL_FD as usize] = true;
    w.next_fd = FIRST_FREE;
    let mut srv = HttpServer::new("verif").unwrap();
    srv.payload_max_size = kani::any();
    srv.start_server().unwrap();
    if with_kill {
        srv.add_kill_switch(crate::verif_mock::EventFd { fd: KILL_FD }).unwrap();
    }
    srv
}

/// Adds a connection whose *shape* is fixed per query (symbolic shapes make every later queue
/// operation a symbolic-offset copy for CBMC): 0 AwaitingIncoming; 1 AwaitingOutgoing with one
/// queued response; 2 AwaitingOutgoing with a half-sent response; 3 AwaitingOutgoing with both;
/// 4 Closed, still registered for IN; 5 Closed, still registered for OUT.  The in-flight count
/// and the payload limit stay symbolic.
fn add_conn(srv: &mut HttpServer, fd: RawFd, shape: usize) {
    let w = world();
    w.open[fd as usize] = true;
    let mut conn = HttpConnection::new(crate::verif_mock::UnixStream { fd });
    conn.set_payload_max_size(kani::any());
    let mut cc = ClientConnection::new(conn);
    cc.state = match shape {
        0 => ClientConnectionState::AwaitingIncoming,
        1 | 2 | 3 => ClientConnectionState::AwaitingOutgoing,
        _ => ClientConnectionState::Closed,
    };
    cc.in_flight_response_count = kani::any();
    kani::assume(cc.in_flight_response_count <= 3);
    match shape {
        1 => ck::set_pending(&mut cc.connection, 1, false),
        2 => ck::set_pending(&mut cc.connection, 0, true),
        3 => ck::set_pending(&mut cc.connection, 1, true),
        _ => {}
    }
    let interest = match shape {
        0 | 4 => IN_RD,
        _ => OUT_RD,
    };
    w.interest[fd as usize] = Some(interest);
    w.data[fd as usize] = fd as u64;
    srv.connections.insert(fd, cc);
}

/// Event kinds (fixed per query): 0..=5, 13, 14 IN event whose read has outcome k (see try_read_hook); 6..=9 OUT event whose
/// write is answered k-6; 10 hang-up/error event (arbitrary non-empty subset of ERR|HUP|RDHUP,
/// plus any readiness bit within the interest set); 11 no event.
fn plan_event(fd: RawFd, kind: usize) -> Option<u32> {
    let w = world();
    let i = fd as usize;
    let interest = w.interest[i].unwrap_or(0);
    if kind <= 5 || kind == 13 || kind == 14 {
        unsafe { ck::READ_PLAN[i] = kind as u8 };
        Some(E_IN)
    } else if kind <= 9 {
        unsafe { ck::WRITE_PLAN[i] = (kind - 6) as u8 };
        Some(E_OUT)
    } else if kind == 10 {
        let bits: u32 = kani::any();
        kani::assume(bits & (E_ERR | E_HUP | E_RDHUP) != 0);
        kani::assume(bits & !(E_IN | E_OUT | E_ERR | E_HUP | E_RDHUP) == 0);
        kani::assume(bits & (E_IN | E_OUT) & !interest == 0);
        Some(bits)
    } else {
        None
    }
}

/// shape of the second connection, derived from its event kind
fn shape_for(kind: usize) -> usize {
    if kind <= 5 || kind >= 13 {
        0
    } else if kind <= 9 {
        1
    } else {
        0
    }
}

// ---------------------------------------------------------------------------------------------
// S1: one requests() call, events on client connections only
// ---------------------------------------------------------------------------------------------
// @harness props=C07,C08,C09,C10,C13 props_thorough=C11,C03 tiers=quick:K=0,N=0,M=11|K=1,N=0,M=11,MEM=5|K=13,N=0,M=11,MEM=5|K=3,N=0,M=11|K=4,N=0,M=11|K=5,N=0,M=11|K=14,N=0,M=11|K=1,N=4,M=11|K=6,N=2,M=11|K=6,N=3,M=11|K=7,N=2,M=11|K=8,N=2,M=11|K=9,N=3,M=11|K=6,N=5,M=11|K=10,N=0,M=11|K=10,N=3,M=11|K=10,N=5,M=11;thorough:K=0,N=0,M=11|K=1,N=0,M=11,MEM=5|K=13,N=0,M=11,MEM=5|K=3,N=0,M=11|K=4,N=0,M=11|K=5,N=0,M=11|K=14,N=0,M=11|K=1,N=4,M=11|K=6,N=2,M=11|K=7,N=2,M=11|K=8,N=2,M=11|K=9,N=3,M=11|K=6,N=5,M=11|K=10,N=0,M=11|K=10,N=3,M=11|K=10,N=5,M=11|K=2,N=0,M=11,MEM=5|K=0,N=4,M=11|K=3,N=4,M=11|K=4,N=4,M=11|K=5,N=4,M=11|K=14,N=4,M=11|K=13,N=4,M=11|K=6,N=3,M=11|K=7,N=3,M=11|K=7,N=5,M=11|K=8,N=3,M=11|K=8,N=5,M=11|K=9,N=2,M=11|K=9,N=5,M=11|K=10,N=2,M=11|K=10,N=4,M=11 unwind=6 cap=600 mem=2 covers=2
// @fn HttpServer::requests ClientConnection::read ClientConnection::write ClientConnection::is_done ClientConnection::clear_write_buffer HttpServer::epoll_mod HttpServer::epoll_del
// @stubs std::fmt::format
// @claim one polling step from any state satisfying the server invariant, with admissible events on the client connections: the call returns normally (never an error); afterwards every remaining connection satisfies the invariant again (pending output <=> AwaitingOutgoing with OUT interest; AwaitingIncoming => IN interest; no failed epoll_ctl); a connection is removed (deregistered and closed once) iff it is Closed with nothing pending and no request in flight; requests are yielded only with the id of the connection they were read from, as many as were parsed, and the in-flight count grows by exactly that number; a parse error yields nothing, leaves the count alone and queues exactly one 400; a queued 100-continue switches the connection to writing; at most one read and one write per connection and step, and never a write on a closed connection; the event buffer holds MAX_CONNECTIONS+2 entries
// @bounds NOT discharged (CBMC runs out of memory): shape 1 (a queued response and no half-sent one: the dequeue path of a write is decided on the connection by c06_history instead) and two connections in one query; `parsed_requests.append(&mut ..collect())` is replaced by its element-wise equivalent in the overlay; connection 0 in invariant shape N (0 AwaitingIncoming, 1..3 AwaitingOutgoing with a queued / half-sent / both responses, 4 Closed registered for IN, 5 Closed registered for OUT) with symbolic in-flight count 0..3 and limit; optional connection 1 (M != 11); event kind on connection 0 = K, on connection 1 = M (0..5 readable with read outcome k: nothing/1/2 requests/100-continue/parse error/EOF, 13/14 = one request then 100-continue / parse error in the same read; 6..9 writable with write answer full/short/EINTR/failure; 10 hang-up or error with arbitrary bits; 11 none), order of the two events symbolic; try_read / try_write replaced by contract models; HashMap replaced by the 3-slot map; epoll/sockets replaced by recording stand-ins
#[kani::proof]
#[kani::stub(std::fmt::format, format_stub)]
fn srv_requests_clients() {
    const KA: usize = crate::verif_params::K;
    const KB: usize = crate::verif_params::M;
    let mut srv = mk_server(kani::any());
    add_conn(&mut srv, C0, crate::verif_params::N);
    if KB != 11 {
        add_conn(&mut srv, C1, shape_for(KB));
    }
    let pre = [view(&srv, C0), view(&srv, C1)];
    kani::assume(sinv_conn(&pre[0], C0) && sinv_conn(&pre[1], C1));
    let w = world();
    let ea = plan_event(C0, KA);
    let eb = plan_event(C1, KB);
    let mut bits_of = [0u32; 2];
    let mut n = 0;
    let c0_first: bool = kani::any();
    if let (Some(a), Some(b)) = (ea, eb) {
        if c0_first {
            w.batch[0] = (C0, a);
            w.batch[1] = (C1, b);
        } else {
            w.batch[0] = (C1, b);
            w.batch[1] = (C0, a);
        }
        bits_of = [a, b];
        n = 2;
    } else if let Some(a) = ea {
        w.batch[0] = (C0, a);
        bits_of[0] = a;
        n = 1;
    } else if let Some(b) = eb {
        w.batch[0] = (C1, b);
        bits_of[1] = b;
        n = 1;
    }
    w.batch_len = n;
    let r = srv.requests();
    assert!(w.wait_calls == 1 && w.wait_cap >= MAX_CONNECTIONS + 2, "[C18,C08] event buffer smaller than listener + kill switch + all connections");
    assert!(w.ctl_errors == 0, "[C08,C09] an epoll_ctl call failed");
    match &r {
        Ok(reqs) => {
            let mut k = 0;
            while k < 2 {
                let fd = if k == 0 { C0 } else { C1 };
                let bits = bits_of[k];
                let had_event = bits != 0;
                let p = pre[k];
                let v = view(&srv, fd);
                let i = fd as usize;
                if !p.present {
                    assert!(!v.present && w.reads[i] == 0 && w.writes[i] == 0);
                    k += 1;
                    continue;
                }
                assert!(w.reads[i] <= 1 && w.writes[i] <= 1, "[C08,C03] more than one read or write on a connection in one polling step");
                // yielded requests carrying this id
                let mut mine = 0u32;
                if fd == C0 {
                    // (single-event queries: every yielded request must carry this id)
                    mine = reqs.len() as u32;
                    if mine >= 1 {
                        assert!(reqs[0].id == fd as u64, "[C07] yielded request carries another connection's id");
                    }
                }
                let hup = had_event && bits & (E_ERR | E_HUP | E_RDHUP) != 0;
                let want_read = had_event && !hup && bits & E_IN != 0;
                let want_write = had_event && !hup && !want_read && bits & E_OUT != 0;
                let did_read = w.reads[i] == 1;
                let did_write = w.writes[i] == 1;
                let (outcome, pushed) = unsafe { ck::READ_LOG[i] };
                // a live connection must be served; on an already closed one readiness may be
                // ignored, but it must never be written to
                assert!(!did_read || want_read, "[C07,C08] read without read readiness");
                assert!(!did_write || (want_write && p.state == 1), "[C08,C09] write attempted without write readiness or with nothing to send");
                if p.state != 2 {
                    assert!(did_read == want_read, "[C08] readable connection not read");
                    assert!(did_write == want_write, "[C08] writable connection not written");
                }
                // expected in-flight count
                let mut exp_in_flight = p.in_flight;
                if did_read {
                    if outcome == 4 || outcome == 5 {
                        assert!(mine == 0, "[C07,C11] request yielded although the read reported an error");
                    } else {
                        assert!(mine == pushed as u32, "[C07,C08] yielded requests differ from the parsed ones");
                        exp_in_flight = p.in_flight + pushed as u32;
                    }
                } else {
                    assert!(mine == 0, "[C07] request attributed to a connection that was not read");
                }
                if v.present {
                    assert!(sinv_conn(&v, fd), "[C08,C09,C13] server invariant broken: pending output without OUT interest, or interest not matching the state");
                    assert!(v.in_flight == exp_in_flight, "[C07,C10] in-flight accounting");
                    assert!(!(v.state == 2 && !v.pending && v.in_flight == 0), "[C09,C10] finished connection not released");
                    if hup {
                        assert!(v.state == 2 && !v.pending, "[C09] hang-up must close the connection and discard its output");
                    }
                    if did_read && outcome == 4 {
                        assert!(v.state == 1 && v.queued == p.queued + 1, "[C11,C07] parse error must queue exactly one error response");
                        assert!(ck::last_queued_status(&srv.connections.get(&fd).unwrap().connection) == Some(StatusCode::BadRequest), "[C11] parse error not answered with 400");

                    }
                    if did_read && outcome == 3 {
                        assert!(v.state == 1, "[C13] interim response pending but the connection is not switched to writing");

                    }
                } else {
                    // removed: must have been done, and released exactly once
                    assert!(exp_in_flight == 0, "[C07,C09] connection released while the application still holds one of its requests");
                    assert!(hup || (did_read && outcome == 5) || p.state == 2 || (did_write), "[C09] open connection released");
                    assert!(w.interest[i].is_none(), "[C10] released connection still registered with epoll");

                }
                k += 1;
            }
        }
        Err(_) => {
            panic!("[C09,C08] the polling function failed although every event was admissible");
        }
    }
    kani::cover!(r.is_ok(), "polling step completes");
    kani::cover!(r.is_ok() && (!(KA == 1 || KA == 2 || KA == 13) || crate::verif_params::N == 4 || matches!(&r, Ok(v) if v.len() >= 1)), "requests yielded");
    std::mem::forget(r);
    std::mem::forget(srv);
}

// ---------------------------------------------------------------------------------------------
// S2: listener event: accept below capacity / refuse at capacity (C10, C04, C07)
// ---------------------------------------------------------------------------------------------
// @harness props=C10,C04,C07 props_thorough=C03 tiers=quick:N=0|N=1|N=2|N=2,M=4|N=2,M=5;thorough:N=0|N=1|N=2|N=2,M=1|N=2,M=4|N=2,M=5 unwind=132 cap=1500 mem=2 covers=1
// @fn HttpServer::requests HttpServer::handle_new_connection HttpServer::epoll_add HttpConnection::set_payload_max_size
// @stubs std::fmt::format
// @claim a readable listener with N connections open (capacity MAX_CONNECTIONS=2 in this configuration): below capacity the client is accepted - non-blocking, registered for IN|RDHUP under its own descriptor as id, AwaitingIncoming, nothing in flight, payload limit = the limit configured at the server at that moment; at capacity the client is accepted only to receive exactly the documented 503 message and is dropped (closed once, never registered), and no existing connection is removed or changed; the polling function returns normally
// @bounds N in {0,1,2} existing connections (shape AwaitingIncoming, symbolic in-flight count), capacity constant substituted 10 -> 2; one listener event; server limit symbolic
#[kani::proof]
#[kani::stub(std::fmt::format, format_stub)]
fn srv_accept() {
    const NCONN: usize = crate::verif_params::N;
    let mut srv = mk_server(kani::any());
    if NCONN >= 1 {
        add_conn(&mut srv, C0, 0);
    }
    if NCONN >= 2 {
        // M: shape of the second connection (a closed one that still waits for an answer must
        // not be evicted to make room)
        add_conn(&mut srv, C1, crate::verif_params::M);
    }
    let pre = [view(&srv, C0), view(&srv, C1)];
    // a closed connection is only still in the table because the application holds a request
    kani::assume(!(pre[1].present && pre[1].state == 2) || pre[1].in_flight >= 1);
    let limit = srv.payload_max_size;
    let w = world();
    w.backlog = 1;
    w.batch[0] = (LISTEN_FD, E_IN);
    w.batch_len = 1;
    let r = srv.requests();
    assert!(matches!(&r, Ok(v) if v.is_empty()), "[C10,C09] polling failed or yielded requests on a listener event");
    assert!(w.accepts == 1 && w.backlog == 0, "[C10] waiting client not accepted exactly once");
    assert!(w.ctl_errors == 0);
    let nf = FIRST_FREE as usize;
    if NCONN < MAX_CONNECTIONS {
        let v = view(&srv, FIRST_FREE);
        assert!(v.present, "[C10] client not admitted below capacity");
        assert!(v.state == 0 && !v.pending && v.in_flight == 0);
        assert!(w.open[nf] && w.interest[nf] == Some(IN_RD) && w.data[nf] == FIRST_FREE as u64, "[C10,C08] new connection not registered for IN|RDHUP under its own id");
        assert!(w.nonblocking[nf], "[C03] accepted stream left blocking");
        assert!(ck::limit_of(&srv.connections.get(&FIRST_FREE).unwrap().connection) == limit, "[C04] connection does not carry the limit configured at the server when it connected");
        assert!(w.raw_written[nf] == 0);
    } else {
        assert!(!view(&srv, FIRST_FREE).present, "[C10] more connections than the capacity");
        assert!(w.raw_written[nf] == full_message().len() && w.raw_written_ok[nf], "[C10] refused client did not receive exactly the documented 503 message");
        assert!(w.closed[nf] == 1 && !w.open[nf] && w.interest[nf].is_none(), "[C10] refused client not disconnected");
    }
    // existing connections untouched
    let mut k = 0;
    while k < 2 {
        let fd = if k == 0 { C0 } else { C1 };
        let v = view(&srv, fd);
        assert!(v.present == pre[k].present && v.state == pre[k].state && v.in_flight == pre[k].in_flight && v.pending == pre[k].pending, "[C10,C07] existing connection disturbed by a new client");
        if v.present {
            assert!(sinv_conn(&v, fd) && w.closed[fd as usize] == 0 && w.open[fd as usize], "[C07,C10] existing connection closed to make room");
        }
        k += 1;
    }
    kani::cover!(true, "end reached");
    std::mem::forget(r);
    std::mem::forget(srv);
}

// ---------------------------------------------------------------------------------------------
// S3: kill switch (C18)
// ---------------------------------------------------------------------------------------------
// @harness props=C18 props_thorough=C03 tiers=quick:K=11,N=0,M=1|K=4,N=0,M=2|K=14,N=0,M=2|K=13,N=0,M=2,MEM=5|K=1,N=0,M=2,MEM=5|K=3,N=0,M=1|K=10,N=0,M=2|K=12,N=0,M=2|K=12,N=0,M=1|K=4,N=0,M=0|K=9,N=3,M=2;thorough:K=11,N=0,M=1|K=4,N=0,M=2|K=14,N=0,M=2|K=13,N=0,M=2,MEM=5|K=1,N=0,M=2,MEM=5|K=3,N=0,M=1|K=10,N=0,M=2|K=12,N=0,M=2|K=12,N=0,M=1|K=4,N=0,M=0|K=9,N=3,M=2|K=11,N=0,M=0|K=0,N=0,M=2|K=3,N=0,M=2|K=5,N=0,M=2|K=14,N=0,M=1|K=1,N=0,M=1|K=13,N=0,M=1|K=7,N=2,M=2|K=10,N=3,M=1|K=12,N=0,M=0|K=6,N=5,M=2|K=2,N=0,M=2,MEM=5 unwind=6 cap=600 mem=2 covers=1
// @fn HttpServer::requests HttpServer::add_kill_switch
// @stubs std::fmt::format
// @claim a batch that contains the kill-switch event makes the polling function return the shutdown indication - wherever the event stands in the batch and whatever the other event is (readable connection that completes requests, writable, hang-up, listener with a client waiting) - and the event buffer offered to epoll_wait has room for the listener, the kill switch and every connection; without a kill switch registered, or without its event, no shutdown is reported
// @bounds one connection in shape N; batch = kill event plus optionally one other event of kind K (0..5 readable with read outcome, 6..9 writable, 10 hang-up, 11 none, 12 listener with a client waiting), kill event absent / first / last per query M
#[kani::proof]
#[kani::stub(std::fmt::format, format_stub)]
fn srv_kill() {
    const KA: usize = crate::verif_params::K;
    let mut srv = mk_server(true);
    add_conn(&mut srv, C0, crate::verif_params::N);
    let pre = view(&srv, C0);
    kani::assume(sinv_conn(&pre, C0));
    let w = world();
    assert!(w.interest[KILL_FD as usize] == Some(IN_RD), "[C18] the kill switch must be registered level-triggered for IN: an edge-triggered or one-shot registration reports the shutdown only once");
    let other: Option<(RawFd, u32)> = if KA == 12 {
        w.backlog = 1;
        Some((LISTEN_FD, E_IN))
    } else {
        plan_event(C0, KA).map(|b| (C0, b))
    };
    // position of the kill event in the batch: fixed per query (M: 0 absent, 1 first, 2 last)
    let kill_present: bool = crate::verif_params::M != 0;
    let kill_first: bool = crate::verif_params::M == 1;
    let mut n = 0;
    if kill_present && kill_first {
        w.batch[n] = (KILL_FD, E_IN);
        n += 1;
    }
    if let Some(ev) = other {
        w.batch[n] = ev;
        n += 1;
    }
    if kill_present && !kill_first {
        w.batch[n] = (KILL_FD, E_IN);
        n += 1;
    }
    w.batch_len = n;
    let r = srv.requests();
    assert!(w.wait_cap >= MAX_CONNECTIONS + 2, "[C18] event buffer cannot hold listener + kill switch + every connection: the kill event can be left out of a batch");
    if kill_present {
        assert!(matches!(r, Err(ServerError::ShutdownEvent)), "[C18] kill-switch event in the batch but no shutdown indication");
    } else {
        assert!(!matches!(r, Err(ServerError::ShutdownEvent)), "[C18] shutdown reported although the kill switch was not signalled");
    }
    kani::cover!(true, "end reached");
    std::mem::forget(r);
    std::mem::forget(srv);
}

// ---------------------------------------------------------------------------------------------
// S4: respond() (C07, C08)
// ---------------------------------------------------------------------------------------------
// @harness props=C07,C08 props_thorough=C03 tiers=quick:N=0,M=0|N=1,M=0|N=4,M=0|N=0,M=1|N=2,M=2;thorough:N=0,M=0|N=1,M=0|N=2,M=0|N=3,M=0|N=4,M=0|N=5,M=0|N=0,M=1|N=5,M=1|N=2,M=2|N=0,M=2 unwind=6 cap=1500 mem=2 covers=1
// @fn HttpServer::respond ClientConnection::enqueue_response HttpServer::epoll_mod
// @stubs std::fmt::format
// @claim respond(id): only the connection whose descriptor equals the id changes; on an open connection the response is appended to its output, the in-flight count drops by one and the connection ends up AwaitingOutgoing with OUT interest (no lost wake-up); on a closed connection the response is dropped but still counted; an unknown id changes nothing and is not an error; the invariant holds afterwards
// @bounds target in shape N with 1..3 requests in flight; M=0: id = the target's descriptor, a second connection (AwaitingIncoming) present; M=1: unknown id (a descriptor number that is not open); M=2: id of the second connection
#[kani::proof]
#[kani::stub(std::fmt::format, format_stub)]
fn srv_respond() {
    const MODE: usize = crate::verif_params::M;
    let mut srv = mk_server(kani::any());
    add_conn(&mut srv, C0, crate::verif_params::N);
    add_conn(&mut srv, C1, 0);
    let pre = [view(&srv, C0), view(&srv, C1)];
    kani::assume(sinv_conn(&pre[0], C0) && sinv_conn(&pre[1], C1));
    let id: u64 = match MODE {
        0 => C0 as u64,
        1 => 6,
        _ => C1 as u64,
    };
    let ti = if MODE == 2 { 1 } else { 0 };
    if MODE != 1 {
        // the application only answers requests it was given
        kani::assume(pre[ti].in_flight >= 1);
    }
    let resp = ServerResponse::new(Response::new(Version::Http11, StatusCode::NoContent), id);
    let r = srv.respond(resp);
    let w = world();
    assert!(r.is_ok(), "[C08,C07] respond() failed");
    assert!(w.ctl_errors == 0);
    let mut k = 0;
    while k < 2 {
        let fd = if k == 0 { C0 } else { C1 };
        let v = view(&srv, fd);
        let p = pre[k];
        assert!(v.present, "[C07] respond() removed a connection");
        if MODE != 1 && k == ti {
            assert!(v.in_flight == p.in_flight - 1, "[C07] answered request not counted");
            if p.state == 2 {
                assert!(v.state == 2 && !v.pending && v.queued == p.queued, "[C07] response delivered to a connection that is already closed");
            } else {
                assert!(v.queued == p.queued + 1, "[C07,C08] response not appended to the output of its connection");
                assert!(v.state == 1, "[C08] connection with pending output not switched to writing");
                assert!(ck::last_queued_status(&srv.connections.get(&fd).unwrap().connection) == Some(StatusCode::NoContent));
            }
        } else {
            assert!(v.state == p.state && v.in_flight == p.in_flight && v.queued == p.queued && v.pending == p.pending, "[C07] response changed a connection other than the one named by its id");
        }
        assert!(sinv_conn(&v, fd), "[C08] server invariant broken by respond(): pending output without OUT interest");
        k += 1;
    }
    kani::cover!(true, "end reached");
    std::mem::forget(r);
    std::mem::forget(srv);
}

// ---------------------------------------------------------------------------------------------
// S5: the limit of a live connection is the one configured when it connected (C04)
// ---------------------------------------------------------------------------------------------
// @harness props=C04 tiers=quick;thorough unwind=6 cap=900 mem=2 covers=1
// @fn HttpServer::set_payload_max_size
// @claim changing the server's payload limit does not change the limit of a connection that is already open
// @bounds one open connection, old and new limit symbolic
#[kani::proof]
fn srv_limit_fixed_at_connect() {
    let mut srv = mk_server(false);
    add_conn(&mut srv, C0, 0);
    let before = ck::limit_of(&srv.connections.get(&C0).unwrap().connection);
    let newl: usize = kani::any();
    srv.set_payload_max_size(newl);
    assert!(srv.payload_max_size == newl);
    assert!(ck::limit_of(&srv.connections.get(&C0).unwrap().connection) == before, "[C04] limit of a live connection changed after it connected");
    kani::cover!(newl != before);
    std::mem::forget(srv);
}

// ---------------------------------------------------------------------------------------------
// S6: ClientConnection::read / enqueue_response on their own (C07 accounting, C13, C11)
// ---------------------------------------------------------------------------------------------
// @harness props=C07,C13,C11,C10 props_thorough=C08,C03 tiers=quick:K=0|K=1|K=2|K=3|K=4|K=5|K=13|K=14|K=15;thorough:K=0|K=1|K=2|K=3|K=4|K=5|K=13|K=14|K=15 unwind=6 cap=900 mem=2 covers=1
// @fn ClientConnection::read ClientConnection::enqueue_response ClientConnection::is_done
// @stubs std::fmt::format
// @claim ClientConnection::read for every outcome class of try_read: the requests handed to the caller are exactly the ones parsed (none after an error), the in-flight count grows by exactly their number and by nothing else (requests discarded by a parse error were never counted and are not subtracted), a parse error queues exactly one 400, pending output switches the connection to AwaitingOutgoing whether or not requests were yielded, end of stream closes it; then enqueue_response on that connection: count decremented by one, response queued unless the connection is closed; is_done <=> closed and nothing pending and count 0
// @bounds read outcome K fixed per query (0 nothing, 1/2 requests, 3 100-continue, 4 parse error, 5 EOF, 13/14 one request followed by 3/4, 15 two requests followed by a parse error); in-flight count before symbolic 0..3
#[kani::proof]
#[kani::stub(std::fmt::format, format_stub)]
fn cc_read() {
    unsafe {
        W = World::new();
        ck::MODEL_IO = true;
        crate::response::verif_kani::MODEL_DEC = true;
        ck::READ_PLAN[C0 as usize] = crate::verif_params::K as u8;
    }
    world().open[C0 as usize] = true;
    let conn = HttpConnection::new(crate::verif_mock::UnixStream { fd: C0 });
    let mut cc = ClientConnection::new(conn);
    let before: u32 = kani::any();
    kani::assume(before <= 3);
    cc.in_flight_response_count = before;
    let r = cc.read();
    let (outcome, pushed) = unsafe { ck::READ_LOG[C0 as usize] };
    let yielded = match &r {
        Ok(v) => v.len(),
        Err(_) => panic!("[C09,C07] ClientConnection::read failed"),
    };
    let pending = cc.connection.pending_write();
    match outcome {
        4 => {
            assert!(yielded == 0, "[C07,C11] requests yielded although the input was rejected");
            assert!(cc.in_flight_response_count == before, "[C07,C10] in-flight count changed by a parse error");
            assert!(ck::queue_len(&cc.connection) == 1 && ck::last_queued_status(&cc.connection) == Some(StatusCode::BadRequest), "[C11] parse error must be answered with exactly one 400");
            assert!(ck::parsed_len(&cc.connection) == 0, "[C11,C07] requests parsed before the rejected one must be discarded, not yielded by a later poll");
            assert!(state_code(&cc.state) == 1, "[C08,C13] pending output but connection not switched to writing");
        }
        5 => {
            assert!(yielded == 0 && cc.in_flight_response_count == before);
            assert!(state_code(&cc.state) == 2 && !pending, "[C09] end of stream must close the connection");
        }
        _ => {
            assert!(yielded == pushed as usize, "[C07,C08] yielded requests differ from the parsed ones");
            assert!(cc.in_flight_response_count == before + pushed as u32, "[C07,C10] in-flight accounting");
            if outcome == 3 {
                assert!(pending && state_code(&cc.state) == 1, "[C13,C08] interim response pending but the connection is not switched to writing");
            } else {
                assert!(!pending && state_code(&cc.state) == 0);
            }
        }
    }
    // the application answers one request (if it holds one)
    if cc.in_flight_response_count >= 1 {
        let q0 = ck::queue_len(&cc.connection);
        let n0 = cc.in_flight_response_count;
        let closed = state_code(&cc.state) == 2;
        let e = cc.enqueue_response(Response::new(Version::Http11, StatusCode::NoContent));
        assert!(e.is_ok());
        assert!(cc.in_flight_response_count == n0 - 1, "[C07] answered request not counted");
        assert!(ck::queue_len(&cc.connection) == if closed { q0 } else { q0 + 1 }, "[C07] response for a closed connection must be dropped, for an open one queued");
        std::mem::forget(e);
    }
    let done = state_code(&cc.state) == 2 && !cc.connection.pending_write() && cc.in_flight_response_count == 0;
    assert!(cc.is_done() == done, "[C07,C10] is_done() disagrees with: closed, nothing pending, nothing in flight");
    kani::cover!(true, "end reached");
    std::mem::forget(r);
    std::mem::forget(cc);
}

// ---------------------------------------------------------------------------------------------
// S7: flush_outgoing_writes (C08)
// ---------------------------------------------------------------------------------------------
// @harness props=C08 props_thorough=C03,C09 tiers=quick:K=0,N=2|K=1,N=2|K=2,N=2|K=3,N=3|K=3,N=2|K=0,N=0;thorough:K=0,N=2|K=1,N=2|K=2,N=2|K=3,N=2|K=3,N=3|K=0,N=0|K=0,N=4|K=0,N=5 unwind=6 cap=900 mem=2 covers=1
// @fn HttpServer::flush_outgoing_writes ClientConnection::write
// @stubs std::fmt::format
// @claim flush_outgoing_writes writes queued output without polling and leaves the server invariant intact: a connection whose output was written completely is AwaitingIncoming *and registered for IN again*, so that the next poll neither fails (a write-readiness event on a connection with nothing to send) nor spins; a failed write closes the connection and discards its output; connections without pending output are not touched
// @bounds one connection in shape N (a flush that has to dequeue a second response - shapes 1 and 3 with a successful first write - runs out of memory and is not discharged); first write answered K (0 everything, 1 partly, 2 interrupted, 3 failure), later writes of the same flush accepted completely; contract model of try_write
#[kani::proof]
#[kani::stub(std::fmt::format, format_stub)]
fn srv_flush() {
    let mut srv = mk_server(kani::any());
    add_conn(&mut srv, C0, crate::verif_params::N);
    let pre = view(&srv, C0);
    kani::assume(sinv_conn(&pre, C0));
    unsafe { ck::WRITE_PLAN[C0 as usize] = crate::verif_params::K as u8 };
    srv.flush_outgoing_writes();
    let w = world();
    let v = view(&srv, C0);
    assert!(v.present && v.in_flight == pre.in_flight, "[C08] flush changed the bookkeeping");
    assert!(w.ctl_errors == 0);
    if pre.state == 1 {
        assert!(w.writes[C0 as usize] >= 1, "[C08] queued output not written by flush");
        assert!(!v.pending, "[C08] output left over although the stream accepted everything (or failed)");
        assert!(v.state == if crate::verif_params::K == 3 { 2 } else { 0 });
    } else {
        assert!(w.writes[C0 as usize] == 0 && v.state == pre.state, "[C08] flush touched a connection without pending output");
    }
    assert!(sinv_conn(&v, C0), "[C08,C09] after flush_outgoing_writes the epoll registration does not match the connection state: the next poll gets a write-readiness event for a connection with nothing to send");
    kani::cover!(true, "end reached");
    std::mem::forget(srv);
}

// ---------------------------------------------------------------------------------------------
// S8: enqueue_responses keeps the order the application supplied (C07)
// ---------------------------------------------------------------------------------------------
// @harness props=C07 props_thorough=C03 tiers=experimental:N=0|N=2 unwind=6 cap=900 mem=2 covers=1
// @fn HttpServer::enqueue_responses HttpServer::respond
// @stubs std::fmt::format
// @claim a batch of two responses for the same connection is appended to that connection's output in the order the application supplied them (first the 204, then the 200), both are counted
// @bounds NOT DISCHARGED (runs out of memory at 16 GB: a Vec of two ServerResponses consumed by value plus two queue pushes) - parked; one connection in shape N with 2..3 requests in flight; batch of two responses with distinct status codes
#[kani::proof]
#[kani::stub(std::fmt::format, format_stub)]
fn srv_enqueue_batch() {
    let mut srv = mk_server(kani::any());
    add_conn(&mut srv, C0, crate::verif_params::N);
    let pre = view(&srv, C0);
    kani::assume(sinv_conn(&pre, C0) && pre.in_flight >= 2);
    let batch = vec![
        ServerResponse::new(Response::new(Version::Http11, StatusCode::NoContent), C0 as u64),
        ServerResponse::new(Response::new(Version::Http11, StatusCode::OK), C0 as u64),
    ];
    let r = srv.enqueue_responses(batch);
    assert!(r.is_ok(), "[C07,C08] enqueue_responses failed");
    let v = view(&srv, C0);
    assert!(v.in_flight == pre.in_flight - 2 && v.queued == pre.queued + 2, "[C07] batch not queued / counted completely");
    let c = &srv.connections.get(&C0).unwrap().connection;
    assert!(ck::queued_status(c, pre.queued) == Some(StatusCode::NoContent) && ck::queued_status(c, pre.queued + 1) == Some(StatusCode::OK), "[C07] responses of one batch queued out of the order the application supplied");
    assert!(sinv_conn(&v, C0));
    kani::cover!(true, "end reached");
    std::mem::forget(r);
    std::mem::forget(srv);
}
