// Array/Vec-backed stand-ins for `std::collections::HashMap`, substituted under cfg(kani) by
// the overlay (see DESIGN.md §2.1).  hashbrown's SIMD group probing and SipHash stall CBMC;
// these models offer exactly the methods the crate's sources use, with the documented
// `HashMap` semantics (unique keys, insert replaces, retain keeps entries whose predicate is
// true).  A method the source uses and the model lacks is a compile error (loud, exit 2).
#![allow(dead_code)]

use std::fmt::Debug;

/// Vec-backed map (used for `Headers::custom_entries`).  The backing Vec is never freed
/// (`ManuallyDrop`): when a `Headers` value travels through a niche-optimised `Result` /
/// `Option` and is then dropped by the real code, Kani 0.68 reads the capacity of an empty
/// `Vec::new()` as non-zero and reports spurious `__rust_dealloc` failures that do not reproduce
/// natively (trace: drop_glue::<[(String, String)]> -> RawVecInner::current_memory ->
/// deallocate).  Leaking a few entries in a model is harmless.
#[derive(Debug)]
pub struct VecMap<K, V> {
    items: std::mem::ManuallyDrop<Vec<(K, V)>>,
}

impl<K: PartialEq, V> Default for VecMap<K, V> {
    fn default() -> Self {
        Self { items: std::mem::ManuallyDrop::new(Vec::new()) }
    }
}

impl<K: PartialEq, V> VecMap<K, V> {
    pub fn new() -> Self {
        Self { items: std::mem::ManuallyDrop::new(Vec::new()) }
    }
    pub fn len(&self) -> usize {
        self.items.len()
    }
    pub fn is_empty(&self) -> bool {
        self.items.is_empty()
    }
    pub fn insert(&mut self, k: K, v: V) -> Option<V> {
        let mut i = 0;
        while i < self.items.len() {
            if self.items[i].0 == k {
                return Some(std::mem::replace(&mut self.items[i].1, v));
            }
            i += 1;
        }
        self.items.push((k, v));
        None
    }
    pub fn get<Q: ?Sized>(&self, k: &Q) -> Option<&V>
    where
        K: std::borrow::Borrow<Q>,
        Q: PartialEq,
    {
        let mut i = 0;
        while i < self.items.len() {
            if self.items[i].0.borrow() == k {
                return Some(&self.items[i].1);
            }
            i += 1;
        }
        None
    }
    pub fn get_mut<Q: ?Sized>(&mut self, k: &Q) -> Option<&mut V>
    where
        K: std::borrow::Borrow<Q>,
        Q: PartialEq,
    {
        let mut i = 0;
        while i < self.items.len() {
            if self.items[i].0.borrow() == k {
                return Some(&mut self.items[i].1);
            }
            i += 1;
        }
        None
    }
    pub fn contains_key<Q: ?Sized>(&self, k: &Q) -> bool
    where
        K: std::borrow::Borrow<Q>,
        Q: PartialEq,
    {
        self.get(k).is_some()
    }
    pub fn iter(&self) -> impl Iterator<Item = (&K, &V)> {
        self.items.iter().map(|(k, v)| (k, v))
    }
    pub fn nth(&self, i: usize) -> Option<(&K, &V)> {
        self.items.get(i).map(|(k, v)| (k, v))
    }
}

impl<K: PartialEq, V: PartialEq> PartialEq for VecMap<K, V> {
    fn eq(&self, other: &Self) -> bool {
        if self.items.len() != other.items.len() {
            return false;
        }
        let mut i = 0;
        while i < self.items.len() {
            match other.get(&self.items[i].0) {
                Some(v) if *v == self.items[i].1 => {}
                _ => return false,
            }
            i += 1;
        }
        true
    }
}
impl<K: Eq, V: Eq> Eq for VecMap<K, V> {}

/// Fixed-capacity slot map (used for `HttpServer::connections`): no heap growth; removals are
/// counted in `removed` (and the removed value is leaked, see `retain`).
pub const SLOTS: usize = 3;

pub struct SlotMap<K, V> {
    pub slots: [Option<(K, V)>; SLOTS],
    pub removed: usize,
}

impl<K: PartialEq + Copy, V> SlotMap<K, V> {
    pub fn new() -> Self {
        Self {
            slots: [None, None, None],
            removed: 0,
        }
    }
    pub fn len(&self) -> usize {
        let mut n = 0;
        let mut i = 0;
        while i < SLOTS {
            if self.slots[i].is_some() {
                n += 1;
            }
            i += 1;
        }
        n
    }
    pub fn get_mut(&mut self, k: &K) -> Option<&mut V> {
        let mut i = 0;
        while i < SLOTS {
            if let Some((kk, _)) = &self.slots[i] {
                if *kk == *k {
                    return self.slots[i].as_mut().map(|(_, v)| v);
                }
            }
            i += 1;
        }
        None
    }
    pub fn get(&self, k: &K) -> Option<&V> {
        let mut i = 0;
        while i < SLOTS {
            if let Some((kk, v)) = &self.slots[i] {
                if *kk == *k {
                    return Some(v);
                }
            }
            i += 1;
        }
        None
    }
    pub fn insert(&mut self, k: K, v: V) -> Option<V> {
        if let Some(slot) = self.get_mut(&k) {
            return Some(std::mem::replace(slot, v));
        }
        let mut i = 0;
        while i < SLOTS {
            if self.slots[i].is_none() {
                self.slots[i] = Some((k, v));
                return None;
            }
            i += 1;
        }
        // Capacity of the model exceeded: outside the bound, make it loud.
        panic!("verif SlotMap capacity exceeded");
    }
    pub fn retain<F: FnMut(&K, &mut V) -> bool>(&mut self, mut f: F) {
        let mut i = 0;
        while i < SLOTS {
            let keep = match self.slots[i].as_mut() {
                Some((k, v)) => f(k, v),
                None => true,
            };
            if !keep {
                // HashMap::retain drops the entry; here it is leaked and counted instead: the drop
                // glue of a whole ClientConnection (queues of requests and responses) is a large
                // part of the formula and says nothing about the server (closing the stream on
                // drop is Rust ownership).  The harness treats a removed entry as closed.
                let gone = self.slots[i].take();
                std::mem::forget(gone);
                self.removed += 1;
            }
            i += 1;
        }
    }
    pub fn iter_mut(&mut self) -> impl Iterator<Item = (&K, &mut V)> {
        self.slots
            .iter_mut()
            .filter_map(|s| s.as_mut().map(|(k, v)| (&*k, v)))
    }
    // The rest of HashMap's everyday API, so that a change to the crate that starts using it
    // still builds against the model (the current sources do not call these).
    pub fn iter(&self) -> impl Iterator<Item = (&K, &V)> {
        self.slots.iter().filter_map(|s| s.as_ref().map(|(k, v)| (k, v)))
    }
    pub fn values(&self) -> impl Iterator<Item = &V> {
        self.slots.iter().filter_map(|s| s.as_ref().map(|(_, v)| v))
    }
    pub fn values_mut(&mut self) -> impl Iterator<Item = &mut V> {
        self.slots.iter_mut().filter_map(|s| s.as_mut().map(|(_, v)| v))
    }
    pub fn keys(&self) -> impl Iterator<Item = &K> {
        self.slots.iter().filter_map(|s| s.as_ref().map(|(k, _)| k))
    }
    pub fn contains_key(&self, k: &K) -> bool {
        self.get(k).is_some()
    }
    pub fn is_empty(&self) -> bool {
        self.len() == 0
    }
    pub fn remove(&mut self, k: &K) -> Option<V> {
        let mut i = 0;
        while i < SLOTS {
            let hit = matches!(&self.slots[i], Some((kk, _)) if *kk == *k);
            if hit {
                self.removed += 1;
                return self.slots[i].take().map(|(_, v)| v);
            }
            i += 1;
        }
        None
    }
}
